package main

import (
	"fmt"
	"go/ast"
	"go/constant"
	"go/token"
	"go/types"
	"sort"
	"strings"

	"golang.org/x/tools/go/ssa"
)

func typeStr(t types.Type) string {
	return types.TypeString(t, func(p *types.Package) string { return p.Name() })
}

// enumValues lists the constants of a named integer type of package model: name -> value.
func enumValues(u *Universe, typeName string) map[string]int64 {
	out := map[string]int64{}
	p := u.Pkgs[pModel]
	if p == nil {
		return out
	}
	sc := p.Types.Scope()
	for _, n := range sc.Names() {
		if c, ok := sc.Lookup(n).(*types.Const); ok {
			if nn, ok := c.Type().(*types.Named); ok && nn.Obj().Name() == typeName {
				if v, ok := constant.Int64Val(c.Val()); ok {
					out[n] = v
				}
			}
		}
	}
	return out
}

// opTables extracts, for every operation struct: the type constant and body type used by its
// constructor(s), the arm of ModelToOperation, and the type asserted by its body getter.
type opInfo struct {
	ctorConst, ctorBody string
	decConsts           []string
	decBody             string
	getBody             string
}

func opTables(u *Universe) (map[string]*opInfo, bool) {
	p := u.Pkgs[pOperations]
	if p == nil {
		return nil, false
	}
	info := p.TypesInfo
	out := map[string]*opInfo{}
	for _, n := range opStructs(u) {
		out[n.Obj().Name()] = &opInfo{}
	}
	// newBaseOperation(const, id, body) inside a composite literal of an op struct
	scan := func(fd *ast.FuncDecl, dec bool, caseConsts []string, root ast.Node) {
		ast.Inspect(root, func(node ast.Node) bool {
			cl, ok := node.(*ast.CompositeLit)
			if !ok {
				return true
			}
			tv, ok := info.Types[cl]
			if !ok {
				return true
			}
			nn := namedOf(tv.Type)
			if nn == nil || out[nn.Obj().Name()] == nil {
				return true
			}
			oi := out[nn.Obj().Name()]
			for _, el := range cl.Elts {
				kv, ok := el.(*ast.KeyValueExpr)
				if !ok {
					continue
				}
				call, ok := kv.Value.(*ast.CallExpr)
				if !ok {
					continue
				}
				// a new helper that wraps "newBaseOperation(type, id, unmarshalBody(body, &T{}))": the &T{} it is given
				if f := calleeOf(info, call); dec && f != nil && u.newFuncObjs[f] {
					if hd, _ := u.Decl(f); hd != nil && hd.Body != nil {
						wraps := 0
						ast.Inspect(hd.Body, func(x ast.Node) bool {
							if c2, isC := x.(*ast.CallExpr); isC {
								if g := calleeOf(info, c2); g != nil && (oldObjName(g) == "newBaseOperation" || oldObjName(g) == "unmarshalBody") {
									wraps++
								}
							}
							return true
						})
						if wraps >= 2 {
							for _, a := range call.Args {
								if ue, isU := ast.Unparen(a).(*ast.UnaryExpr); isU && ue.Op == token.AND {
									if btv, okT := info.Types[ue]; okT {
										oi.decConsts = append(oi.decConsts, caseConsts...)
										oi.decBody = typeStr(btv.Type)
									}
								}
							}
						}
					}
					continue
				}
				// a local closure that wraps "newBaseOperation(type, id, unmarshalBody(body, emptyBody))"
				if id, isID := ast.Unparen(call.Fun).(*ast.Ident); dec && isID && fd != nil && fd.Body != nil {
					if v, isVar := info.Uses[id].(*types.Var); isVar {
						var lit *ast.FuncLit
						ast.Inspect(fd.Body, func(x ast.Node) bool {
							as, isAs := x.(*ast.AssignStmt)
							if !isAs || len(as.Lhs) != len(as.Rhs) {
								return true
							}
							for i, l := range as.Lhs {
								if li, isLI := l.(*ast.Ident); isLI && (info.Defs[li] == types.Object(v) || info.Uses[li] == types.Object(v)) {
									if fl, isFL := as.Rhs[i].(*ast.FuncLit); isFL {
										lit = fl
									}
								}
							}
							return true
						})
						if lit != nil {
							wraps := 0
							ast.Inspect(lit.Body, func(x ast.Node) bool {
								if c2, isC := x.(*ast.CallExpr); isC {
									if g := calleeOf(info, c2); g != nil && (oldObjName(g) == "newBaseOperation" || oldObjName(g) == "unmarshalBody") {
										wraps++
									}
								}
								return true
							})
							if wraps >= 2 {
								for _, a := range call.Args {
									if ue, isU := ast.Unparen(a).(*ast.UnaryExpr); isU && ue.Op == token.AND {
										if btv, okT := info.Types[ue]; okT {
											oi.decConsts = append(oi.decConsts, caseConsts...)
											oi.decBody = typeStr(btv.Type)
										}
									}
								}
							}
							continue
						}
					}
				}
				if len(call.Args) != 3 {
					continue
				}
				if f := calleeOf(info, call); f == nil || oldObjName(f) != "newBaseOperation" {
					continue
				}
				body := ""
				bexpr := ast.Unparen(call.Args[2])
				if inner, ok := bexpr.(*ast.CallExpr); ok { // unmarshalBody(op.Body, &T{})
					if f := calleeOf(info, inner); f != nil && oldObjName(f) == "unmarshalBody" && len(inner.Args) == 2 {
						bexpr = inner.Args[1]
					}
				}
				if btv, ok := info.Types[bexpr]; ok {
					body = typeStr(btv.Type)
				}
				if dec {
					oi.decConsts = append(oi.decConsts, caseConsts...)
					oi.decBody = body
				} else {
					oi.ctorConst = enumConstName(info, call.Args[0])
					if oi.ctorConst == "" {
						oi.ctorConst = "computed"
					}
					oi.ctorBody = body
				}
			}
			return true
		})
	}
	for _, f := range p.Syntax {
		if isTestFile(u.Fset, f.Pos()) {
			continue
		}
		for _, d := range f.Decls {
			fd, ok := d.(*ast.FuncDecl)
			if !ok || fd.Body == nil {
				continue
			}
			switch {
			case fd.Name.Name == "ModelToOperation":
				for _, sw := range switchesIn(fd.Body) {
					for _, s := range sw.Body.List {
						cc := s.(*ast.CaseClause)
						var cs []string
						for _, e := range cc.List {
							cs = append(cs, enumConstName(info, e))
						}
						for _, st := range cc.Body {
							scan(fd, true, cs, st)
						}
					}
				}
			case strings.HasPrefix(fd.Name.Name, "New") && fd.Recv == nil:
				scan(fd, false, nil, fd.Body)
			case fd.Recv != nil:
				if obj, ok := info.Defs[fd.Name].(*types.Func); ok {
					rn := recvTypeName(obj)
					if oi := out[rn]; oi != nil {
						ast.Inspect(fd.Body, func(n ast.Node) bool {
							if ta, ok := n.(*ast.TypeAssertExpr); ok && ta.Type != nil {
								if sel, isSel := ta.X.(*ast.SelectorExpr); !isSel || sel.Sel.Name != "Body" {
									return true
								}
								if tv, ok := info.Types[ta.Type]; ok {
									t := typeStr(tv.Type)
									if oi.getBody != "" && oi.getBody != t {
										oi.getBody = "conflicting: " + oi.getBody + " and " + t
									} else {
										oi.getBody = t
									}
								}
							}
							return true
						})
					}
				}
			}
		}
	}
	return out, true
}

// R14.1 the encode / decode tables agree, exhaustively
func ruleR14_1(w *World, r *Report) {
	u := w.Client()
	r.Rule("R14.1", "for every operation type: the constructor's type constant and body type, the arm of ModelToOperation for that constant and the type asserted by the body getter agree; every TypeOfOperation value except NO_OP has a decoder arm", 14)
	tabs, ok := opTables(u)
	if !ok || len(tabs) == 0 {
		r.Lost("operation structs of client/pkg/operations")
		return
	}
	var names []string
	for n := range tabs {
		names = append(names, n)
	}
	sort.Strings(names)
	covered := map[string]string{}
	for _, n := range names {
		oi := tabs[n]
		for _, c := range oi.decConsts {
			if prev, dup := covered[c]; dup && prev != n {
				r.Bad("ModelToOperation/"+c, "", "the type constant is decoded into two operation types: "+prev+" and "+n)
			}
			covered[c] = n
		}
		cons := "operations." + n
		pos := ""
		if nn := u.Named(pOperations, n); nn != nil {
			pos = u.Pos(nn.Obj().Pos())
		}
		if n == "SnapshotOperation" {
			r.Check(oi.decBody == "[]byte" && oi.getBody == "[]byte" && len(oi.decConsts) == 4, cons, pos, "four snapshot constants, raw body", fmt.Sprintf("snapshot decoding: constants %v, decoder body %s, getter %s", oi.decConsts, oi.decBody, oi.getBody))
			continue
		}
		good := oi.ctorConst != "" && has(oi.decConsts, oi.ctorConst) && len(oi.decConsts) == 1 && oi.ctorBody == oi.decBody && oi.ctorBody == oi.getBody && oi.ctorBody != ""
		r.Check(good, cons, pos, fmt.Sprintf("%s <-> %s", oi.ctorConst, oi.ctorBody),
			fmt.Sprintf("constructor emits (%s, %s) but ModelToOperation decodes %v into body %s and the getter asserts %s", oi.ctorConst, oi.ctorBody, oi.decConsts, oi.decBody, oi.getBody))
	}
	for c, v := range enumValues(u, "TypeOfOperation") {
		if v == 0 {
			continue
		}
		_, ok := covered[c]
		r.Check(ok, "ModelToOperation/arm "+c, "", "decoded", "the operation type "+c+" has no arm in ModelToOperation: decoding it panics")
	}
}

// R14.2 body structs are fully serialisable
func ruleR14_2(w *World, r *Report) {
	u := w.Client()
	r.Rule("R14.2", "every operation body struct has only exported fields, none excluded from JSON, no duplicate keys and no unserialisable kinds (channels, functions)", 12)
	tabs, ok := opTables(u)
	if !ok {
		r.Lost("operation structs")
		return
	}
	seenBody := map[string]bool{}
	p := u.Pkgs[pOperations]
	for _, oi := range tabs {
		b := strings.TrimPrefix(strings.TrimPrefix(oi.ctorBody, "*"), "operations.")
		if b == "" || b == "[]byte" || seenBody[b] {
			continue
		}
		seenBody[b] = true
		obj := p.Types.Scope().Lookup(b)
		if obj == nil {
			continue
		}
		st, ok := obj.Type().Underlying().(*types.Struct)
		if !ok {
			continue
		}
		bad := ""
		keysSeen := map[string]bool{}
		for _, fk := range structKeys(st, "json") {
			if fk.Key == "" {
				bad = "field " + fk.Name + " is not transmitted (unexported or json:\"-\")"
			}
			if keysSeen[strings.ToLower(fk.Key)] {
				bad = "JSON key " + fk.Key + " is duplicated (case-insensitively)"
			}
			keysSeen[strings.ToLower(fk.Key)] = true
			switch fk.Type.Underlying().(type) {
			case *types.Chan, *types.Signature:
				bad = "field " + fk.Name + " cannot be serialised"
			}
		}
		r.Check(bad == "", "body "+b, u.Pos(obj.Pos()), fmt.Sprintf("%d fields", st.NumFields()), bad)
	}
}

// R14.3 snapshot type arithmetic
func ruleR14_3(w *World, r *Report) {
	u := w.Client()
	r.Rule("R14.3", "TypeOfOperation(d*10+10) is the snapshot constant of datatype d, the values divisible by ten are exactly NO_OP and the four snapshot types (the test executeLocalBase uses to skip them), and NewSnapshotOperation computes exactly that formula", 6)
	ops, dts := enumValues(u, "TypeOfOperation"), enumValues(u, "TypeOfDatatype")
	if len(ops) < 10 || len(dts) < 4 {
		r.Lost("enums TypeOfOperation / TypeOfDatatype")
		return
	}
	byVal := map[int64]string{}
	for n, v := range ops {
		byVal[v] = n
	}
	want := map[string]string{"TypeOfDatatype_COUNTER": "TypeOfOperation_COUNTER_SNAPSHOT", "TypeOfDatatype_MAP": "TypeOfOperation_MAP_SNAPSHOT",
		"TypeOfDatatype_LIST": "TypeOfOperation_LIST_SNAPSHOT", "TypeOfDatatype_DOCUMENT": "TypeOfOperation_DOC_SNAPSHOT"}
	for d, v := range dts {
		got := byVal[v*10+10]
		r.Check(got == want[d] && got != "", "snapshot type of "+d, "", got, fmt.Sprintf("TypeOfOperation(%d*10+10) is %q, expected %s", v, got, want[d]))
	}
	var tens []string
	for n, v := range ops {
		if v%10 == 0 {
			tens = append(tens, n)
		}
	}
	sort.Strings(tens)
	r.Check(strings.Join(tens, ",") == "TypeOfOperation_COUNTER_SNAPSHOT,TypeOfOperation_DOC_SNAPSHOT,TypeOfOperation_LIST_SNAPSHOT,TypeOfOperation_MAP_SNAPSHOT,TypeOfOperation_NO_OP",
		"values divisible by ten", "", strings.Join(tens, ","), "the operation types with value%10==0 are "+strings.Join(tens, ",")+": executeLocalBase would skip the local execution of a non-snapshot operation (or execute a snapshot)")
	if fn := u.Fn(pOperations, "", "NewSnapshotOperation"); fn == nil {
		r.Lost("operations.NewSnapshotOperation")
	} else {
		found := false
		for _, c := range callsNamed(fn, "newBaseOperation") {
			found = true
			got := canonLinear(c.Common().Args[0]).String()
			r.Check(got == "+10*$0+10", "NewSnapshotOperation/type formula", u.Pos(c.Pos()), got, "the snapshot operation type is computed as "+got+", expected typeOf*10+10")
		}
		if !found {
			r.Lost("NewSnapshotOperation: newBaseOperation call")
		}
	}
	if fn := u.Fn(pDatatypes, "BaseDatatype", "executeLocalBase"); fn != nil {
		found := false
		deepOf(fn).each(func(x dins) {
			if bo, ok := x.in.(*ssa.BinOp); ok && bo.Op.String() == "%" {
				if k, ok := constInt(bo.Y); ok && k == 10 {
					found = true
				}
			}
		})
		r.Check(found, "executeLocalBase/snapshot test", u.Pos(fn.Pos()), "type%10 == 0", "executeLocalBase no longer recognises snapshot operations by type%10 == 0")
	}
}

// R14.4 the stored form of an operation
func ruleR14_4(w *World, r *Report) {
	u := w.Server()
	r.Rule("R14.4", "NewOperationDoc stores every field of an operation (era, lamport, cuid, seq, type, body) and GetOperation reads each back from the field it was stored in; the field-name tables used in queries name existing bson keys of the document types", 12)
	nd, gd := u.Fn(pSchema, "", "NewOperationDoc"), u.Fn(pSchema, "OperationDoc", "GetOperation")
	if nd == nil || gd == nil {
		r.Lost("schema.NewOperationDoc / OperationDoc.GetOperation")
		return
	}
	wantStore := map[string]string{"complit.OpID.Era": "$0.ID.Era", "complit.OpID.Lamport": "$0.ID.Lamport", "complit.OpID.CUID": "$0.ID.CUID", "complit.OpID.Seq": "$0.ID.Seq",
		"complit.Body": "$0.Body", "complit.OpType": "$0.OpType.String()"}
	for addr, want := range wantStore {
		sts := storesTo(nd, addr)
		got := ""
		if len(sts) > 0 {
			got = canonName(sts[0].Val)
		}
		if len(sts) == 0 && strings.HasPrefix(addr, "complit.OpID.") {
			// the identifier part built by a new helper (newOpID(op.ID)): the helper's own literal, in the caller's terms
			for _, st := range storesTo(nd, "complit."+strings.TrimPrefix(addr, "complit.OpID.")) {
				if st.Parent() != nd {
					got = canonName(st.Val)
				}
			}
		}
		r.Check(got == want, "NewOperationDoc/"+strings.TrimPrefix(addr, "complit."), u.Pos(nd.Pos()), got, "the stored "+addr+" is "+got+", expected "+want)
	}
	wantLoad := map[string]string{"complit.Era": "$0.OpID.Era", "complit.Lamport": "$0.OpID.Lamport", "complit.CUID": "$0.OpID.CUID", "complit.Seq": "$0.OpID.Seq", "complit.Body": "$0.Body"}
	for addr, want := range wantLoad {
		sts := storesTo(gd, addr)
		got := ""
		if len(sts) > 0 {
			got = canonName(sts[0].Val)
		}
		r.Check(got == want, "GetOperation/"+strings.TrimPrefix(addr, "complit."), u.Pos(gd.Pos()), got, "the loaded "+addr+" is "+got+", expected "+want)
	}
	tsts := storesTo(gd, "complit.OpType")
	okType := len(tsts) == 1 && strings.Contains(canonName(tsts[0].Val), "TypeOfOperation_value[$0.OpType]")
	r.Check(okType, "GetOperation/OpType", u.Pos(gd.Pos()), "TypeOfOperation_value[OpType]", "the operation type is not restored from the stored type name")
	// field-name tables
	p := u.Pkgs[pSchema]
	for _, pair := range [][2]string{{"OperationDocFields", "OperationDoc"}, {"SnapshotDocFields", "SnapshotDoc"}, {"ClientDocFields", "ClientDoc"}, {"CollectionDocFields", "CollectionDoc"}} {
		v, _ := p.Types.Scope().Lookup(pair[0]).(*types.Var)
		n := u.Named(pSchema, pair[1])
		if v == nil || n == nil {
			r.Lost("schema." + pair[0])
			continue
		}
		keys := map[string]string{}
		for _, fk := range structKeys(n.Underlying().(*types.Struct), "bson") {
			keys[fk.Name] = fk.Key
		}
		vals := fieldTableValues(u, p, pair[0])
		used := fieldsUsedInQueries(u, pair[0])
		for f := range used {
			key, has := keys[f]
			r.Check(has && vals[f] == key, "schema."+pair[0]+"."+f, u.Pos(v.Pos()), vals[f], fmt.Sprintf("the query field name %s.%s is %q but the document stores %s under %q", pair[0], f, vals[f], f, key))
		}
	}
	// DatatypeDocFields used in queries: DUID, Key, CollectionNum
	if n := u.Named(pSchema, "DatatypeDoc"); n != nil {
		keys := map[string]string{"DUID": "_id"}
		if up := u.Named(pSchema, "UpdatedDatatypeDoc"); up != nil {
			for _, fk := range structKeys(up.Underlying().(*types.Struct), "bson") {
				keys[fk.Name] = fk.Key
			}
		}
		vals := fieldTableValues(u, p, "DatatypeDocFields")
		for f := range fieldsUsedInQueries(u, "DatatypeDocFields") {
			r.Check(keys[f] != "" && vals[f] == keys[f], "schema.DatatypeDocFields."+f, "", vals[f], fmt.Sprintf("the query field name DatatypeDocFields.%s is %q but the document stores it under %q", f, vals[f], keys[f]))
		}
	}
}

// fieldTableValues evaluates `var XFields = struct{...}{A: "a", ...}`.
func fieldTableValues(u *Universe, p interface{}, name string) map[string]string {
	out := map[string]string{}
	pk := u.Pkgs[pSchema]
	for _, f := range pk.Syntax {
		for _, d := range f.Decls {
			gd, ok := d.(*ast.GenDecl)
			if !ok {
				continue
			}
			for _, s := range gd.Specs {
				vs, ok := s.(*ast.ValueSpec)
				if !ok || len(vs.Names) != 1 || vs.Names[0].Name != name || len(vs.Values) != 1 {
					continue
				}
				if cl, ok := vs.Values[0].(*ast.CompositeLit); ok {
					for _, el := range cl.Elts {
						if kv, ok := el.(*ast.KeyValueExpr); ok {
							if id, ok := kv.Key.(*ast.Ident); ok {
								if cv := constOf(pk.TypesInfo, kv.Value); cv != nil && cv.Kind() == constant.String {
									out[id.Name] = constant.StringVal(cv)
								}
							}
						}
					}
				}
			}
		}
	}
	return out
}

// fieldsUsedInQueries: which fields of a field-name table the repository uses.
func fieldsUsedInQueries(u *Universe, table string) map[string]bool {
	out := map[string]bool{}
	for _, path := range []string{pMongo, pSchema} {
		pk := u.Pkgs[path]
		if pk == nil {
			continue
		}
		for _, f := range pk.Syntax {
			if isTestFile(u.Fset, f.Pos()) {
				continue
			}
			ast.Inspect(f, func(n ast.Node) bool {
				sel, ok := n.(*ast.SelectorExpr)
				if !ok {
					return true
				}
				switch x := sel.X.(type) {
				case *ast.SelectorExpr:
					if x.Sel.Name == table {
						out[sel.Sel.Name] = true
					}
				case *ast.Ident:
					if x.Name == table {
						out[sel.Sel.Name] = true
					}
				}
				return true
			})
		}
	}
	return out
}

// R14.5 the echo service
func ruleR14_5(w *World, r *Report) {
	u := w.Server()
	r.Rule("R14.5", "the encoding-echo service has an arm for every operation type and each arm reads every field of that type's body", 14)
	fd, p := u.DeclOf(pService, "OrdaService", "TestEncodingOperation")
	if fd == nil {
		r.Lost("OrdaService.TestEncodingOperation")
		return
	}
	// the arms: the cases of the type switch over the decoded operation (in the function itself or in a new helper
	// it hands the operation to), plus operation types that are peeled off by a comma-ok assertion before the switch
	arms := map[string]*ast.CaseClause{}
	peeled := map[string]token.Pos{}
	nSwitch := 0
	for _, hd := range u.declWithNewHelpers(pService, "OrdaService", "TestEncodingOperation") {
		if hd.Body == nil {
			continue
		}
		for _, ts := range typeSwitchesIn(hd.Body) {
			nSwitch++
			for k, v := range typeSwitchArms(p.TypesInfo, ts) {
				if _, dup := arms[k]; !dup {
					arms[k] = v
				}
			}
		}
		ast.Inspect(hd.Body, func(node ast.Node) bool {
			as, ok := node.(*ast.AssignStmt)
			if !ok || len(as.Lhs) != 2 || len(as.Rhs) != 1 {
				return true
			}
			ta, ok := as.Rhs[0].(*ast.TypeAssertExpr)
			if !ok || ta.Type == nil {
				return true
			}
			if tv, ok := p.TypesInfo.Types[ta.Type]; ok {
				if n := namedOf(tv.Type); n != nil {
					peeled[n.Obj().Name()] = as.Pos()
				}
			}
			return true
		})
	}
	if nSwitch == 0 {
		r.Undecided("TestEncodingOperation", u.Pos(fd.Pos()), "no type switch")
		return
	}
	tabs, _ := opTables(u)
	var names []string
	for n := range tabs {
		names = append(names, n)
	}
	sort.Strings(names)
	for _, n := range names {
		cc := arms[n]
		if cc == nil {
			if pos, ok := peeled[n]; ok && (n == "ErrorOperation" || n == "IncreaseOperation" || n == "SnapshotOperation") {
				r.OK("TestEncodingOperation/arm "+n, u.Pos(pos), "handled by a comma-ok assertion ahead of the switch")
				continue
			}
			r.Bad("TestEncodingOperation/arm "+n, u.Pos(fd.Pos()), "no arm: the echo answers with an unrelated operation")
			continue
		}
		body := strings.TrimPrefix(strings.TrimPrefix(tabs[n].ctorBody, "*"), "operations.")
		obj := u.Pkgs[pOperations].Types.Scope().Lookup(body)
		if obj == nil || n == "ErrorOperation" || n == "IncreaseOperation" || n == "SnapshotOperation" {
			r.OK("TestEncodingOperation/arm "+n, u.Pos(cc.Pos()), "arm present")
			continue
		}
		st, ok := obj.Type().Underlying().(*types.Struct)
		if !ok {
			r.OK("TestEncodingOperation/arm "+n, u.Pos(cc.Pos()), "arm present")
			continue
		}
		read := map[string]bool{}
		for _, s := range cc.Body {
			ast.Inspect(s, func(node ast.Node) bool {
				if sel, ok := node.(*ast.SelectorExpr); ok {
					if call, ok := sel.X.(*ast.CallExpr); ok {
						if f := calleeOf(p.TypesInfo, call); f != nil && oldObjName(f) == "GetBody" {
							read[sel.Sel.Name] = true
						}
					}
				}
				return true
			})
		}
		var missing []string
		for i := 0; i < st.NumFields(); i++ {
			if !read[st.Field(i).Name()] {
				missing = append(missing, st.Field(i).Name())
			}
		}
		r.Check(len(missing) == 0, "TestEncodingOperation/arm "+n, u.Pos(cc.Pos()), "copies every body field", "the echo arm does not copy body field(s) "+strings.Join(missing, ","))
	}
}

// R14.6 local and remote construction of JSON values agree on container kinds
func ruleR14_6(w *World, r *Report) {
	u := w.Client()
	r.Rule("R14.6", "createJSONTypeFromReflectValue maps the kinds of a decoded JSON value - slice, map, and the interface values they hold - to a JSON array, a JSON object and a recursion on the held value; arms for array, struct and pointer, where they exist, map the same way (since R01.6 the issuing replica builds from the JSON form too, so these arms are no longer needed)", 4)
	fd, p := u.DeclOf(pOrda, "jsonPrimitive", "createJSONTypeFromReflectValue")
	if fd == nil {
		r.Lost("jsonPrimitive.createJSONTypeFromReflectValue")
		return
	}
	type kindArm struct {
		kinds []string
		body  []ast.Stmt
	}
	var arms []kindArm
	if sws := switchesIn(fd.Body); len(sws) > 0 {
		for _, s := range sws[0].Body.List {
			cc := s.(*ast.CaseClause)
			a := kindArm{body: cc.Body}
			for _, e := range cc.List {
				a.kinds = append(a.kinds, exprString(e))
			}
			arms = append(arms, a)
		}
	} else {
		// the same dispatch written as ifs: kind == reflect.X (|| kind == reflect.Y ...)
		var kindsOf func(e ast.Expr) ([]string, bool)
		kindsOf = func(e ast.Expr) ([]string, bool) {
			e = ast.Unparen(e)
			be, ok := e.(*ast.BinaryExpr)
			if !ok {
				return nil, false
			}
			switch be.Op {
			case token.LOR:
				l, okl := kindsOf(be.X)
				rr, okr := kindsOf(be.Y)
				return append(l, rr...), okl && okr
			case token.EQL:
				for _, side := range []ast.Expr{be.X, be.Y} {
					if t := exprString(ast.Unparen(side)); strings.HasPrefix(t, "reflect.") {
						return []string{t}, true
					}
				}
			}
			return nil, false
		}
		var walkIf func(st *ast.IfStmt)
		walkIf = func(st *ast.IfStmt) {
			if ks, ok := kindsOf(st.Cond); ok {
				arms = append(arms, kindArm{ks, st.Body.List})
			}
			if e, ok := st.Else.(*ast.IfStmt); ok {
				walkIf(e)
			}
		}
		for _, st := range fd.Body.List {
			if is, ok := st.(*ast.IfStmt); ok {
				walkIf(is)
			}
		}
	}
	if len(arms) == 0 {
		r.Undecided("createJSONTypeFromReflectValue", u.Pos(fd.Pos()), "no dispatch over the reflect kind (switch or if-chain)")
		return
	}
	kindTo := map[string]string{}
	for _, a := range arms {
		ai := classifyArm(p.TypesInfo, a.body)
		target := ai.Kind
		for _, c := range ai.Callees {
			switch c.Name() {
			case "createJSONArray", "createJSONObject", "createJSONTypeFromReflectValue", "newJSONElement":
				target = c.Name()
			}
		}
		for _, k := range a.kinds {
			kindTo[k] = target
		}
	}
	// the kinds a value in its JSON form has (R01.6; the receivers never see another): the others, where an arm for
	// them exists, must agree as well but need not exist
	want := map[string]string{"reflect.Slice": "createJSONArray", "reflect.Map": "createJSONObject", "reflect.Interface": "createJSONTypeFromReflectValue"}
	optional := map[string]string{"reflect.Array": "createJSONArray", "reflect.Struct": "createJSONObject", "reflect.Ptr": "createJSONTypeFromReflectValue"}
	for k, wv := range optional {
		if got, has := kindTo[k]; has {
			r.Check(got == wv, "createJSONTypeFromReflectValue/"+k, u.Pos(fd.Pos()), wv, fmt.Sprintf("a Go value of kind %s becomes %q, JSON encodes it as %s", k, got, wv))
		} else {
			r.OK("createJSONTypeFromReflectValue/"+k, u.Pos(fd.Pos()), "no arm: values reach this function in their JSON form (R01.6)")
		}
	}
	for k, wv := range want {
		r.Check(kindTo[k] == wv, "createJSONTypeFromReflectValue/"+k, u.Pos(fd.Pos()), wv, fmt.Sprintf("a Go value of kind %s becomes %q on the originating replica but JSON decoding turns it into %s on the others", k, kindTo[k], wv))
	}
}
