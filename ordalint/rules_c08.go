package main

import (
	"fmt"
	"go/ast"
	"go/token"
	"go/types"
	"sort"
	"strings"

	"golang.org/x/tools/go/ssa"
)

// R08.2 every failure leaves through the error pack
func ruleR08_2(w *World, r *Report) {
	u := w.Server()
	r.Rule("R08.2", "in the handler's exit function, every path with a non-nil handler error sets the error bit and appends an ErrorOperation built from that error before the reply is sent", 1)
	fn := u.Fn(pService, "PushPullHandler", "finalize")
	if fn == nil {
		r.Lost("PushPullHandler.finalize")
		return
	}
	var send *ssa.Send
	nSend := 0
	forEachInstr(fn, func(in ssa.Instruction) {
		if s, ok := in.(*ssa.Send); ok {
			send, nSend = s, nSend+1
		}
	})
	if send == nil {
		r.Bad("PushPullHandler.finalize/error pack", u.Pos(fn.Pos()), "the exit function sends no reply at all")
		return
	}
	paths, ok := pathsWithBlocks(fn, nil, send.Block())
	good := ok
	detail := ""
	nErrPaths := 0
	for _, p := range paths {
		errPath := false
		for _, l := range p.Lits {
			if l.Kind == "cmp" && strings.HasSuffix(canonName(l.X), ".err") {
				if c, isC := l.Y.(*ssa.Const); isC && c.Value == nil && l.Op.String() == "!=" {
					errPath = true
				}
			}
		}
		if !errPath {
			continue
		}
		nErrPaths++
		need := map[string]bool{"SetErrorBit": false, "NewErrorOperation": false, "append": false}
		var cands []ssa.CallInstruction
		forEachInstr(fn, func(in ssa.Instruction) {
			if ci, ok := in.(ssa.CallInstruction); ok {
				cands = append(cands, ci)
			}
		})
		for _, c := range cands {
			// a call inside a new helper is on the path when the helper's call site is (and the call always runs there)
			onPath := p.Blocks[c.Block()]
			if c.Parent() != fn {
				for _, site := range liftAll(c.(ssa.Instruction), fn) {
					if p.Blocks[site.Block()] && alwaysRuns(c.(ssa.Instruction)) {
						onPath = true
					}
				}
			}
			if _, want := need[calleeName(c)]; want && onPath {
				if calleeName(c) == "NewErrorOperation" && !strings.HasSuffix(canonName(c.Common().Args[0]), ".err") {
					continue
				}
				need[calleeName(c)] = true
			}
		}
		for k, v := range need {
			if !v {
				good = false
				detail = "a failing path reaches the reply without " + k
			}
		}
	}
	if nErrPaths == 0 {
		good, detail = false, "no path to the reply tests the handler's error"
	}
	r.Check(good, "PushPullHandler.finalize/error pack", u.Pos(send.Pos()), fmt.Sprintf("%d failing paths set the error bit and append the ErrorOperation", nErrPaths), detail)
}

// serverPushPullCodes: the PushPull* error codes constructed in server/service.
func serverPushPullCodes(u *Universe) map[string]string {
	out := map[string]string{}
	for _, fn := range u.ordaFuncs(func(p string) bool { return p == pService }) {
		for _, c := range callsIn(fn) {
			o := calleeObj(c)
			if !isMethod(o, pErrors, "ErrorCode", "New") {
				continue
			}
			if k, ok := constInt(c.Common().Args[0]); ok {
				if n := errorCodeName(u, k); strings.HasPrefix(n, "PushPull") {
					out[n] = u.Pos(c.Pos())
				}
			}
		}
	}
	return out
}

// R08.3 the client handles every code the server can send
func ruleR08_3(w *World, r *Report) {
	u := w.Server()
	r.Rule("R08.3", "every PushPull error code the server constructs is turned by the client's checkOptionAndError into a returned OrdaError (an arm that returns an error, or the error return after the switch) - never into a panic or a silent nil", 5)
	codes := serverPushPullCodes(u)
	if len(codes) < 4 {
		r.Lost(fmt.Sprintf("PushPull error codes constructed by the server (found %d)", len(codes)))
		return
	}
	fd, p := u.DeclOf(pDatatypes, "WiredDatatype", "checkOptionAndError")
	if fd == nil {
		r.Lost("WiredDatatype.checkOptionAndError")
		return
	}
	var sw *ast.SwitchStmt
	// the switch may live in a new helper extracted from checkOptionAndError
	for _, hd := range u.declWithNewHelpers(pDatatypes, "WiredDatatype", "checkOptionAndError") {
		for _, s := range switchesIn(hd.Body) {
			if s.Tag != nil {
				if tv, ok := p.TypesInfo.Types[s.Tag]; ok {
					if n := namedOf(tv.Type); n != nil && n.Obj().Name() == "ErrorCode" {
						sw = s
						fd = hd
					}
				}
			}
		}
	}
	if sw == nil {
		r.Lost("checkOptionAndError: switch over the error code")
		return
	}
	arms := map[string]armInfo{}
	hasDefault := false
	var deflt armInfo
	for _, s := range sw.Body.List {
		cc := s.(*ast.CaseClause)
		ai := classifyArm(p.TypesInfo, cc.Body)
		if cc.List == nil {
			hasDefault, deflt = true, ai
		}
		for _, e := range cc.List {
			arms[enumConstName(p.TypesInfo, e)] = ai
		}
	}
	// what follows the switch in its enclosing block
	after := armInfo{Kind: "falls-off"}
	ast.Inspect(fd.Body, func(n ast.Node) bool {
		blk, ok := n.(*ast.BlockStmt)
		if !ok {
			return true
		}
		for i, s := range blk.List {
			if s == ast.Stmt(sw) {
				after = classifyArm(p.TypesInfo, blk.List[i+1:])
			}
		}
		return true
	})
	returnsErr := func(ai armInfo) bool {
		return ai.Callee != nil && isMethod(ai.Callee, pErrors, "ErrorCode", "New")
	}
	var names []string
	for n := range codes {
		names = append(names, n)
	}
	sort.Strings(names)
	for _, n := range names {
		ai, has := arms[n]
		cons := "checkOptionAndError/code " + n
		switch {
		case has && returnsErr(ai):
			r.OK(cons, u.Pos(ai.Pos), "arm returns an OrdaError")
		case has && ai.Kind == "empty" && returnsErr(after):
			r.OK(cons, u.Pos(sw.Pos()), "empty arm, the statement after the switch returns an OrdaError")
		case !has && hasDefault && returnsErr(deflt):
			r.OK(cons, u.Pos(deflt.Pos), "default arm returns an OrdaError")
		case !has && !hasDefault && returnsErr(after):
			r.OK(cons, u.Pos(sw.Pos()), "no arm, the statement after the switch returns an OrdaError")
		default:
			k := "no arm"
			if has {
				k = "arm: " + ai.Kind
			}
			r.Bad(cons, u.Pos(sw.Pos()), fmt.Sprintf("the server sends %s (constructed at %s) but the client does not turn it into a returned error (%s; after the switch: %s)", n, codes[n], k, after.Kind))
		}
	}
}

// R08.4 the push commit is atomic or idempotent
func ruleR08_4(w *World, r *Report) {
	u := w.Server()
	r.Rule("R08.4", "the function that persists a push (operation insert and datatype-document update) runs both writes inside the repository's transaction wrapper, or inserts the operations idempotently (upsert), so that retrying the same sync after a crash between the writes succeeds", 1)
	proc := u.Fn(pService, "PushPullHandler", "process")
	if proc == nil {
		r.Lost("PushPullHandler.process")
		return
	}
	d := deepOf(proc)
	insC, updC := d.calls("InsertOperations"), d.calls("UpdateDatatype")
	if len(insC) == 0 || len(updC) == 0 {
		r.Lost("the push commit: InsertOperations and UpdateDatatype below process")
		return
	}
	// both writes inside one function that the repository's transaction wrapper runs
	inTx := false
	for a := insC[0].n; a != nil; a = a.parent {
		for b := updC[0].n; b != nil; b = b.parent {
			if a != b {
				continue
			}
			for x := a; x != nil; x = x.parent {
				n := x.fn.Name()
				if x.fn.Parent() != nil {
					// closure handed to the wrapper
					for _, c := range callsIn(x.fn.Parent()) {
						if has([]string{"doTransaction", "DoTransaction", "WithTransaction"}, calleeName(c)) {
							for _, arg := range c.Common().Args {
								if mc, ok := arg.(*ssa.MakeClosure); ok && mc.Fn == ssa.Value(x.fn) {
									inTx = true
								}
							}
						}
					}
				}
				if n == "doTransaction" || n == "WithTransaction" {
					inTx = true
				}
			}
		}
	}
	upsert := false
	if ins := u.Fn(pMongo, "MongoCollections", "InsertOperations"); ins != nil {
		for _, c := range callsIn(ins) {
			n := calleeName(c)
			if n == "BulkWrite" || n == "UpdateOne" || n == "ReplaceOne" {
				upsert = true
			}
		}
	}
	r.Check(inTx || upsert, "push commit/atomic-or-idempotent", d.pos(u, insC[0]), "transactional or idempotent",
		"the operation insert and the datatype-document update are two separate writes, neither inside doTransaction nor idempotent: a crash between them leaves stored but unacknowledged operations, and the retry computes the same duid:sseq keys and fails on the duplicate _id for ever")
}

// ---------------------------------------------------------------------------------------------
// C16 rules that C08 cross-lists

// R16.1 exactly one reply and one unlock on every exit of the handler goroutine
func ruleR16_1(w *World, r *Report) {
	u := w.Server()
	r.Rule("R16.1", "the handler goroutine defers its exit function before anything can fail; the exit function sends exactly one reply on every path (the recover branch included) and releases the lock iff it was taken", 3)
	proc := u.Fn(pService, "PushPullHandler", "process")
	fin := u.Fn(pService, "PushPullHandler", "finalize")
	if proc == nil || fin == nil {
		r.Lost("PushPullHandler.process / finalize")
		return
	}
	// (a) process defers finalize before any call that can fail
	var def *ssa.Defer
	forEachInstr(proc, func(in ssa.Instruction) {
		if d, ok := in.(*ssa.Defer); ok && calleeName(d) == "finalize" {
			def = d
		}
	})
	if def == nil {
		r.Bad("PushPullHandler.process/defer finalize", u.Pos(proc.Pos()), "the handler goroutine does not defer its exit function: a panic or early return leaves the request unanswered")
	} else {
		bad := ""
		for _, c := range callsIn(proc) {
			in := c.(ssa.Instruction)
			if in == ssa.Instruction(def) || calleeName(c) == "TryLock" {
				continue
			}
			if !instrDominates(def, in) {
				bad = calleeName(c)
			}
		}
		r.Check(bad == "" && def.Block() == proc.Blocks[0], "PushPullHandler.process/defer finalize", u.Pos(def.Pos()), "deferred first (after TryLock)", "a call ("+bad+") can run before the exit function is deferred")
	}
	// (b) finalize: every path entry -> return passes exactly one Send
	var sends []*ssa.Send
	var rets []*ssa.Return
	forEachInstr(fin, func(in ssa.Instruction) {
		switch x := in.(type) {
		case *ssa.Send:
			sends = append(sends, x)
		case *ssa.Return:
			rets = append(rets, x)
		}
	})
	good := len(sends) > 0
	detail := "the exit function never sends a reply"
	for _, ret := range rets {
		if ret.Block().Comment == "recover" {
			continue
		}
		paths, ok := pathsWithBlocks(fin, nil, ret.Block())
		if !ok {
			good, detail = false, "too many paths"
		}
		for _, p := range paths {
			n := 0
			for _, s := range sends {
				if p.Blocks[s.Block()] {
					n++
				}
			}
			if n != 1 {
				good = false
				detail = fmt.Sprintf("a path through the exit function sends %d replies: %s", n, litsString(p.Lits))
			}
		}
	}
	pos := u.Pos(fin.Pos())
	if len(sends) > 0 {
		pos = u.Pos(sends[0].Pos())
		good = good && strings.HasSuffix(canonName(sends[0].Chan), ".retCh") && strings.HasSuffix(canonName(sends[0].X), ".resPushPullPack")
	}
	r.Check(good, "PushPullHandler.finalize/one reply on every path", pos, fmt.Sprintf("%d return(s), each path sends once", len(rets)), detail)
	// (c) unlock iff locked
	ruleLockedParam(u, r, fin, def)
	// (d) recover() only stops a panic when the deferred function itself calls it: a recover moved into a helper
	// that the deferred function calls returns nil, the panic goes on and takes the process down
	nRec := 0
	for _, f := range u.ordaFuncs(func(p string) bool { return true }) {
		var rec ssa.Instruction
		forEachOwnInstr(f, func(in ssa.Instruction) {
			if c, ok := in.(*ssa.Call); ok {
				if b, isB := c.Call.Value.(*ssa.Builtin); isB && b.Name() == "recover" {
					rec = in
				}
			}
		})
		if rec == nil {
			continue
		}
		nRec++
		deferred, plain := false, ""
		for _, g := range u.ordaFuncs(func(p string) bool { return true }) {
			for _, h := range withClosures(g) {
				forEachOwnInstr(h, func(in ssa.Instruction) {
					ci, ok := in.(ssa.CallInstruction)
					if !ok {
						return
					}
					hit := staticCallee(ci) == f
					if mc, isMC := ci.Common().Value.(*ssa.MakeClosure); isMC && mc.Fn == ssa.Value(f) {
						hit = true
					}
					if !hit {
						return
					}
					if _, isDefer := in.(*ssa.Defer); isDefer {
						deferred = true
					} else {
						plain = fnName(h)
					}
				})
			}
		}
		r.Check(deferred && plain == "", fnName(f)+"/recover is called by the deferred function itself", u.Pos(rec.Pos()), "deferred directly",
			"recover() is called in "+fnName(f)+", which is "+map[bool]string{true: "also ", false: ""}[deferred]+"called as an ordinary function (from "+plain+"): recover only stops a panic when the deferred function calls it directly, so the panic escapes and ends the server process")
	}
	// (e) a recovered panic always becomes the handler's error: from the edge "recover() != nil" every path stores
	// an error into the handler (otherwise the request is answered like a success with the request's own checkpoint)
	if fin != nil {
		for _, b := range fin.Blocks {
			if len(b.Instrs) == 0 {
				continue
			}
			ifi, isIf := b.Instrs[len(b.Instrs)-1].(*ssa.If)
			if !isIf {
				continue
			}
			l := normLit(condEdge{ifi.Cond, true})
			if l.Kind != "cmp" || (l.Op != token.NEQ && l.Op != token.EQL) {
				continue
			}
			rc, isCall := loadSource(l.X).(*ssa.Call)
			if !isCall {
				continue
			}
			if bi, isB := rc.Call.Value.(*ssa.Builtin); !isB || bi.Name() != "recover" {
				continue
			}
			entry := b.Succs[0]
			if l.Op == token.EQL {
				entry = b.Succs[1]
			}
			// the recovered branch merges with the normal flow: look only at the blocks the entry dominates
			set := false
			var walk func(x *ssa.BasicBlock, seen map[*ssa.BasicBlock]bool) bool
			walk = func(x *ssa.BasicBlock, seen map[*ssa.BasicBlock]bool) bool {
				if seen[x] {
					return true
				}
				seen[x] = true
				for _, in := range x.Instrs {
					if st, ok := in.(*ssa.Store); ok && strings.HasSuffix(canonName(st.Addr), ".err") {
						if c, isC := st.Val.(*ssa.Const); !isC || c.Value != nil {
							return true
						}
					}
				}
				if !entry.Dominates(x) && x != entry {
					return false // left the recovered branch without having set the error
				}
				if len(x.Succs) == 0 {
					return false
				}
				for _, s2 := range x.Succs {
					if !walk(s2, seen) {
						return false
					}
				}
				return true
			}
			set = walk(entry, map[*ssa.BasicBlock]bool{})
			r.Check(set, "PushPullHandler.finalize/recovered panic becomes the error", u.Pos(ifi.Pos()), "its.err set on every path of the recover branch", "after a recovered panic there is a path on which the handler's error is not set: the request is answered without the error bit, with the request's own checkpoint and no operations; the client takes it for an acknowledgement and never sends the operations again")
		}
	}
	if fin != nil {
		own := false
		forEachOwnInstr(fin, func(in ssa.Instruction) {
			if c, ok := in.(*ssa.Call); ok {
				if b, isB := c.Call.Value.(*ssa.Builtin); isB && b.Name() == "recover" {
					own = true
				}
			}
		})
		r.Check(own, "PushPullHandler.finalize/recovers", u.Pos(fin.Pos()), "the exit function calls recover()", "the deferred exit function of the handler goroutine does not call recover() itself: a panic while handling a request ends the server process")
	}
}

// ruleLockedParam: the deferred exit function receives the TryLock result and unlocks exactly on
// its true edge, on every path.
func ruleLockedParam(u *Universe, r *Report, fin *ssa.Function, def *ssa.Defer) {
	cons := "PushPullHandler.finalize/unlock iff locked"
	if def == nil {
		return
	}
	// which parameter of finalize carries the TryLock result?
	idx := -1
	for i, a := range def.Call.Args {
		if c, ok := a.(*ssa.Call); ok && calleeName(c) == "TryLock" {
			idx = i
		}
	}
	if idx < 0 || idx >= len(fin.Params) {
		r.Bad(cons, u.Pos(def.Pos()), "the exit function does not receive the result of TryLock: it cannot know whether this request holds the lock")
		return
	}
	locked := fin.Params[idx]
	var unlocks []ssa.Instruction
	for _, c := range callsNamed(fin, "Unlock") {
		unlocks = append(unlocks, c.(ssa.Instruction))
	}
	if len(unlocks) == 0 {
		r.Bad(cons, u.Pos(fin.Pos()), "the exit function never unlocks")
		return
	}
	good := true
	detail := ""
	for _, un := range unlocks {
		paths, _ := reachingLits(fin, nil, un)
		for _, p := range paths {
			has := false
			for _, l := range p {
				if l.Kind == "bool" && l.X == ssa.Value(locked) && l.Pol {
					has = true
				}
			}
			if !has {
				good, detail = false, "Unlock is reachable when the lock was not taken (it would release another request's lock)"
			}
		}
	}
	forEachInstr(fin, func(in ssa.Instruction) {
		ret, ok := in.(*ssa.Return)
		if !ok || ret.Block().Comment == "recover" {
			return
		}
		paths, _ := pathsWithBlocks(fin, nil, ret.Block())
		for _, p := range paths {
			isLocked := false
			for _, l := range p.Lits {
				if l.Kind == "bool" && l.X == ssa.Value(locked) && l.Pol {
					isLocked = true
				}
			}
			if !isLocked {
				continue
			}
			n := 0
			for _, un := range unlocks {
				if p.Blocks[un.Block()] {
					n++
				}
			}
			if n != 1 {
				good, detail = false, fmt.Sprintf("a path on which the lock is held releases it %d times", n)
			}
		}
	})
	// no early exit before the lock decision: every return is reached through the `locked` test
	r.Check(good, cons, u.Pos(unlocks[0].Pos()), "Unlock exactly once on the locked edge of every path", detail)
}

// R16.2 fields used by the exit code are assigned on every path that reaches it
func ruleR16_2(w *World, r *Report) {
	u := w.Server()
	r.Rule("R16.2", "the function that assigns the reply channel and the response pack is the first call of the handler goroutine after the exit function is deferred, and assigns the channel before anything in it can panic", 2)
	proc := u.Fn(pService, "PushPullHandler", "process")
	if proc == nil {
		r.Lost("PushPullHandler.process")
		return
	}
	d := deepOfDepth(proc, 1)
	rcs, rps := d.stores("$0.retCh"), d.stores("$0.resPushPullPack")
	if len(rcs) != 1 || len(rps) == 0 {
		r.Bad("PushPullHandler.process/initialise first", u.Pos(proc.Pos()), fmt.Sprintf("the handler goroutine assigns the reply channel %d time(s) and the response pack %d time(s); expected one assignment of each at its start", len(rcs), len(rps)))
		return
	}
	rc, rp := rcs[0], rps[0]
	prc, prp := lift(rc, d.root), lift(rp, d.root)
	bad := ""
	for _, c := range callsIn(proc) {
		n := calleeName(c)
		in := c.(ssa.Instruction)
		if in == prc || n == "TryLock" || n == "finalize" {
			continue
		}
		if !instrDominates(prc, in) {
			bad = n + " (before the reply channel is assigned)"
		}
		if f := staticCallee(c); in != prp && f != nil && f.Pkg != nil && f.Pkg.Pkg.Path() == pService && !instrDominates(prp, in) {
			bad = n + " (before the response pack is created)"
		}
	}
	forEachInstr(proc, func(in ssa.Instruction) {
		if ret, ok := in.(*ssa.Return); ok && ret.Block().Comment != "recover" && !(instrDominates(prc, ret) && instrDominates(prp, ret)) {
			bad = "a return"
		}
	})
	r.Check(bad == "", "PushPullHandler.process/initialise first", d.pos(u, rc), "the assignment of reply channel and response pack dominates every other step and every return",
		bad+" can be reached before the reply channel and the response pack are assigned: the exit function would dereference nil")
	// the channel is stored before any call of the function that stores it (except taking the lock
	// and deferring the exit function)
	first := ""
	for _, c := range callsIn(rc.n.fn) {
		n := calleeName(c)
		if rc.n == d.root && (n == "TryLock" || n == "finalize") {
			continue
		}
		if !instrDominates(rc.in, c.(ssa.Instruction)) {
			first = n
			break
		}
	}
	if rc.n != d.root && !alwaysRuns(rc.in) {
		first = "an early return"
	}
	r.Check(first == "", "PushPullHandler.process/channel first", d.pos(u, rc), "the reply channel is stored before any call", first+" can happen before the reply channel is stored: the exit function would then send on a nil channel and block for ever")
}

// R16.4 an error is never reported as success
func ruleR16_4(w *World, r *Report) {
	u := w.Client()
	r.Rule("R16.4", "NewRPCError never builds a status with code OK: every value that reaches the code argument of status.Error is a non-zero constant", 1)
	fn := u.Fn(pErrors, "", "NewRPCError")
	if fn == nil {
		r.Lost("errors.NewRPCError")
		return
	}
	found := false
	for _, c := range callsIn(fn) {
		f := staticCallee(c)
		if f == nil || f.Name() != "Error" || f.Pkg == nil || !strings.HasSuffix(f.Pkg.Pkg.Path(), "grpc/status") {
			continue
		}
		found = true
		vals := map[string]bool{}
		var walk func(v ssa.Value, d int)
		walk = func(v ssa.Value, d int) {
			if d > 10 {
				vals["?"] = true
				return
			}
			switch x := v.(type) {
			case *ssa.Const:
				vals[x.Value.ExactString()] = true
			case *ssa.Phi:
				for _, e := range x.Edges {
					walk(e, d+1)
				}
			default:
				vals["?"+exprName(v)] = true
			}
		}
		walk(c.Common().Args[0], 0)
		bad := ""
		for k := range vals {
			if k == "0" || strings.HasPrefix(k, "?") {
				bad = k
			}
		}
		r.Check(bad == "", "errors.NewRPCError/code", u.Pos(c.Pos()), fmt.Sprintf("codes %v", keys(vals)), "the status code can be "+bad+" (codes.OK is 0): status.Error(codes.OK, msg) is nil, so the failure is reported as success")
	}
	if !found {
		r.Lost("NewRPCError: call of status.Error")
	}
}

func keys(m map[string]bool) []string {
	var out []string
	for k := range m {
		out = append(out, k)
	}
	sort.Strings(out)
	return out
}

var _ = types.Typ
