package main

import (
	"fmt"
	"go/ast"
	"sort"
	"strings"

	"golang.org/x/tools/go/ssa"
)

// R18.1 publish gating
func ruleR18_1(w *World, r *Report) {
	u := w.Server()
	r.Rule("R18.1", "the notification is published only from the post-reply goroutine of the handler's exit function, which is started only when the handler had no error and stored at least one operation", 2)
	v := newCGView(u, w.Thorough)
	pub := u.Fn(pNotif, "Notifier", "NotifyAfterPushPull")
	fin := u.Fn(pService, "PushPullHandler", "finalize")
	if pub == nil || fin == nil {
		r.Lost("NotifyAfterPushPull / finalize")
		return
	}
	var g *ssa.Go
	forEachInstr(fin, func(in ssa.Instruction) {
		if x, ok := in.(*ssa.Go); ok {
			g = x
		}
	})
	if g == nil {
		r.Bad("finalize/post-reply goroutine gated", u.Pos(fin.Pos()), "the post-reply goroutine is gone: pushes are no longer announced")
		return
	}
	// functions that run only inside the post-reply goroutine
	allowed := map[*ssa.Function]bool{}
	if gf := staticCallee(g); gf != nil {
		allowed[gf] = true
	}
	for changed := true; changed; {
		changed = false
		for f := range allowed {
			for _, c := range callsIn(f) {
				h := staticCallee(c)
				if h == nil || allowed[h] || h.Pkg == nil || h.Pkg.Pkg.Path() != pService {
					continue
				}
				only := true
				for _, cs := range v.callers(h) {
					if !allowed[cs.Parent()] {
						only = false
					}
				}
				if only {
					allowed[h] = true
					changed = true
				}
			}
		}
	}
	okCallers := len(v.callers(pub)) > 0
	who := "nobody"
	for _, c := range v.callers(pub) {
		if !allowed[c.Parent()] {
			okCallers, who = false, fnName(c.Parent())
		}
	}
	r.Check(okCallers, "NotifyAfterPushPull/only from the post-reply goroutine", u.Pos(g.Pos()), "finalize's goroutine (-> helper) -> NotifyAfterPushPull", "the notification is published from "+who+", expected only the post-reply goroutine of finalize")
	lits, _ := litStrings(fin, g)
	lin, _ := pathLinCmps(fin, g, nil)
	good := allPathsContain(lits, "$0.err == nil") && allPathsHave(lin, "-len($0.pushingOperations) < 0")
	r.Check(good, "finalize/post-reply goroutine gated", u.Pos(g.Pos()), "err == nil && len(pushingOperations) > 0", fmt.Sprintf("the announcing goroutine starts under %v / %v; expected err == nil and len(pushingOperations) > 0 (pull-only or failed syncs must publish nothing)", lits, lin))
}

// R18.2 content provenance
func ruleR18_2(w *World, r *Report) {
	u := w.Server()
	r.Rule("R18.2", "the notification carries the pusher's client id, the datatype's id and the handler's new end of the log, and is published on the topic of collection name and datatype key", 5)
	pub := u.Fn(pNotif, "Notifier", "NotifyAfterPushPull")
	fin := u.Fn(pService, "PushPullHandler", "finalize")
	if fin == nil || pub == nil {
		r.Lost("finalize / NotifyAfterPushPull")
		return
	}
	var gf *ssa.Function
	forEachInstr(fin, func(in ssa.Instruction) {
		if x, ok := in.(*ssa.Go); ok {
			gf = staticCallee(x)
		}
	})
	if gf == nil {
		r.Lost("finalize: post-reply goroutine")
		return
	}
	d := deepOfDepth(gf, 2)
	for _, x := range d.calls("NotifyAfterPushPull") {
		a := x.in.(ssa.CallInstruction).Common().Args
		var got []string
		for _, arg := range a[len(a)-4:] {
			got = append(got, d.name(x.n, arg))
		}
		want := "$0.collectionDoc.Name | $0.CUID | $0.datatypeDoc | $0.currentCP.Sseq"
		r.Check(strings.Join(got, " | ") == want, "notification/arguments", d.pos(u, x), strings.Join(got, ", "), "the notification is built from ("+strings.Join(got, ", ")+"); expected (collection name, handler CUID, datatype document, current server sequence)")
	}
	for _, f := range []struct{ field, want string }{{"CUID", "$3"}, {"DUID", "$4.DUID"}, {"Sseq", "$5"}} {
		sts := storesTo(pub, "."+f.field)
		got := ""
		for _, st := range sts {
			if o, _, _, ok := storeField(st.Addr); ok && o == "Notification" {
				got = canonName(st.Val)
			}
		}
		r.Check(got == f.want, "NotifyAfterPushPull/"+f.field, u.Pos(pub.Pos()), got, "Notification."+f.field+" is "+got+", expected "+f.want)
	}
	ss := sprintfSites(pub)
	okTopic := false
	for _, s := range ss {
		if len(s.Opnds) == 2 && s.Format == "%s/%s" && canonName(s.Opnds[0]) == "$2" && canonName(s.Opnds[1]) == "$4.UpdatedDatatypeDoc.Key" {
			okTopic = true
			// the formatted topic is the one published
			for _, c := range callsNamed(pub, "Publish") {
				if !origins(c.Common().Args[0])["call:fmt.Sprintf"] {
					okTopic = false
				}
			}
		}
	}
	r.Check(okTopic, "NotifyAfterPushPull/topic", u.Pos(pub.Pos()), `"%s/%s" over (collection name, key)`, "the topic is not \"<collection name>/<datatype key>\"")
}

// R18.3 publisher and subscriber agree on the topic
func ruleR18_3(w *World, r *Report) {
	u := w.Server()
	r.Rule("R18.3", "the client subscribes to the same topic format the server publishes on (collection, key), and extracts the key as the second segment", 2)
	sub := u.Fn(pCManagers, "DatatypeManager", "OnChangeDatatypeState")
	pub := u.Fn(pNotif, "Notifier", "NotifyAfterPushPull")
	rcv := u.Fn(pCManagers, "DatatypeManager", "ReceiveNotification")
	if sub == nil || pub == nil || rcv == nil {
		r.Lost("OnChangeDatatypeState / NotifyAfterPushPull / ReceiveNotification")
		return
	}
	var pf, sf string
	for _, s := range sprintfSites(pub) {
		if len(s.Opnds) == 2 {
			pf = s.Format
		}
	}
	okOps := false
	for _, s := range sprintfSites(sub) {
		if len(s.Opnds) == 2 {
			sf = s.Format
			okOps = strings.HasSuffix(canonName(s.Opnds[0]), ".Collection") && strings.HasSuffix(canonName(s.Opnds[1]), "GetKey()")
		}
	}
	r.Check(pf != "" && pf == sf && okOps, "topic format agreement", u.Pos(sub.Pos()), pf, fmt.Sprintf("the server publishes on %q, the client subscribes to %q (operands collection/key: %v)", pf, sf, okOps))
	// the receiver inverts the format: the key is everything after "<collection>/" (a key may itself contain '/')
	okKey := false
	seen := ""
	forEachInstr(rcv, func(in ssa.Instruction) {
		l, ok := in.(*ssa.Lookup)
		if !ok || mapFieldOf(l.X) != "DatatypeManager.dataMap" {
			return
		}
		seen = canonName(l.Index)
		switch x := l.Index.(type) {
		case *ssa.Call:
			if calleeName(x) == "TrimPrefix" && len(x.Call.Args) == 2 && canonName(x.Call.Args[0]) == "$1" {
				p := canonName(x.Call.Args[1])
				if strings.HasSuffix(p, `.Collection+"/")`) {
					okKey = true
				}
			}
		default:
			// strings.SplitN(topic, "/", 2)[1]
			for _, c := range callsNamed(rcv, "SplitN") {
				a := c.Common().Args
				if len(a) == 3 && canonName(a[0]) == "$1" {
					sep, isS := a[1].(*ssa.Const)
					n, isN := constInt(a[2])
					if isS && isN && n == 2 && strings.HasSuffix(seen, ")[1]") {
						if sv, _ := unquoteConst(sep); sv == "/" {
							okKey = true
						}
					}
				}
			}
		}
	})
	r.Check(okKey, "ReceiveNotification/key = topic without the collection prefix", u.Pos(rcv.Pos()), `strings.TrimPrefix(topic, collection+"/")`, "the receiver looks the datatype up by "+seen+", which is not the inverse of the topic format <collection>/<key>: a key that contains '/' is cut (F32), or the wrong part of the topic is used")
}

// R18.4 own notifications are ignored, others sync iff behind
func ruleR18_4(w *World, r *Report) {
	u := w.Client()
	r.Rule("R18.4", "ReceiveNotification returns before any sync when the notification's CUID is the client's own; otherwise it syncs the datatype of that key and DUID iff the announced end of the log is beyond the client's checkpoint", 3)
	rcv := u.Fn(pCManagers, "DatatypeManager", "ReceiveNotification")
	if rcv == nil {
		r.Lost("ReceiveNotification")
		return
	}
	d := deepOfDepth(rcv, 1)
	found := false
	for _, x := range d.calls("sync", "syncPushPullPacks") {
		found = true
		paths, ok := d.paths(x, nil)
		good := ok && (allLitPathsContain(paths, "$0.ctx.Client.CUID != $2.CUID", "GetDUID() == $2.DUID") || allLitPathsContain(paths, "$2.CUID != $0.ctx.Client.CUID", "GetDUID() == $2.DUID") ||
			allLitPathsContain(paths, "$0.ctx.Client.CUID != $2.CUID", "$2.DUID == ") || allLitPathsContain(paths, "$2.CUID != $0.ctx.Client.CUID", "$2.DUID == "))
		r.Check(good, "ReceiveNotification/own notification ignored", d.pos(u, x), "sync only for foreign notifications of the same DUID", fmt.Sprintf("the sync is reached under %v", strsOf(paths)))
		behind := ok && len(paths) > 0
		for _, p := range paths {
			okp := false
			for _, l := range p.strs {
				if strings.HasPrefix(l, "NeedPull(") {
					okp = true
				}
			}
			behind = behind && okp
		}
		r.Check(behind, "ReceiveNotification/sync iff behind", d.pos(u, x), "sync iff NeedPull(sseq)", fmt.Sprintf("the sync is reached under %v, expected NeedPull(announced sseq)", strsOf(paths)))
	}
	if !found {
		r.Bad("ReceiveNotification/own notification ignored", u.Pos(rcv.Pos()), "a notification no longer triggers a sync")
	}
	// the question "is this replica behind?" is asked for every foreign notification of a known datatype: an exit
	// that does not pass NeedPull may only depend on the notification's origin, the registry lookup and the DUID
	// (not, e.g., on NeedPush: the push-pull in flight may already have been answered)
	for _, nd := range d.nodes {
		forEachOwnInstr(nd.fn, func(in ssa.Instruction) {
			ret, ok := in.(*ssa.Return)
			if !ok || ret.Block().Comment == "recover" {
				return
			}
			passes := false
			for _, x := range d.calls("NeedPull") {
				if x.n == nd && instrDominates(x.in, ret) {
					passes = true
				}
				if x.n != nd && x.n.parent == nd {
					// asked inside a helper called from this function: judged at the helper's own returns
					if site, isIn := x.n.site.(ssa.Instruction); isIn && instrDominates(site, ret) {
						passes = true
					}
				}
			}
			if passes {
				return
			}
			lp, okl := d.localPaths(nd, ret, nil)
			if !okl {
				return
			}
			for _, p := range lp {
				for _, l := range p.strs {
					isLookupOk := (strings.HasSuffix(l, "#1") || strings.HasSuffix(l, "]")) && (strings.HasPrefix(l, "$0.dataMap[") || strings.HasPrefix(l, "!$0.dataMap["))
					if strings.Contains(l, ".CUID") || isLookupOk || strings.Contains(l, "GetDUID()") || strings.HasSuffix(l, ".DUID") {
						continue
					}
					r.Bad("ReceiveNotification/NeedPull asked for every foreign notification", u.Pos(ret.Pos()), "an exit that never asks NeedPull depends on "+l+": a notification is dropped for a reason other than its origin or its datatype (for example because a push is pending - but that push-pull may already have been answered without the announced operations), and nobody repeats it")
					return
				}
			}
		})
	}
	// ... and a replica that is behind does sync: from the true edge of NeedPull every path reaches the sync
	// (waiting for the semaphore is fine, giving up silently is not: nobody repeats a dropped notification)
	for _, nd := range d.nodes {
		for _, b := range nd.fn.Blocks {
			if len(b.Instrs) == 0 {
				continue
			}
			ifi, isIf := b.Instrs[len(b.Instrs)-1].(*ssa.If)
			if !isIf {
				continue
			}
			l := normLit(condEdge{ifi.Cond, true})
			if l.Kind != "call" || calleeName(l.Call) != "NeedPull" {
				continue
			}
			entry := b.Succs[0]
			if !l.Pol {
				entry = b.Succs[1]
			}
			reach, bad := mustReachFromBlock(entry, func(in ssa.Instruction) bool {
				if ci, ok := in.(ssa.CallInstruction); ok && (calleeName(ci) == "sync" || calleeName(ci) == "syncPushPullPacks") {
					if _, isDefer := in.(*ssa.Defer); !isDefer {
						return true
					}
				}
				if ret, ok := in.(*ssa.Return); ok && returnsNonNilLast(ret) {
					return true
				}
				return false
			})
			pos := u.Pos(ifi.Pos())
			if bad != nil {
				pos = u.Pos(bad.Pos())
			}
			r.Check(reach, "ReceiveNotification/a replica that is behind syncs", pos, "sync on every path after NeedPull", "after NeedPull answered true there is a path that returns without syncing and without an error (e.g. when the semaphore is busy): the notification is dropped, nobody repeats it, and the realtime replica stays behind")
		}
	}
	for _, x := range d.calls("NeedPull") {
		a := x.in.(ssa.CallInstruction).Common().Args
		got := d.name(x.n, a[len(a)-1])
		r.Check(got == "$2.Sseq", "ReceiveNotification/announced sseq", d.pos(u, x), "NeedPull(notification.Sseq)", "NeedPull is asked about "+got)
	}
	if np := u.Fn(pDatatypes, "WiredDatatype", "NeedPull"); np != nil {
		forEachInstr(np, func(in ssa.Instruction) {
			if ret, ok := in.(*ssa.Return); ok && len(ret.Results) == 1 {
				if bo, ok := ret.Results[0].(*ssa.BinOp); ok {
					l := normLit(condEdge{bo, true})
					lc, ok2 := canonLinCmp(l)
					r.Check(ok2 && lc.String() == "+$0.checkPoint.Sseq-$1 < 0", "WiredDatatype.NeedPull", u.Pos(ret.Pos()), "checkPoint.Sseq < sseq", "NeedPull is "+lc.String())
				}
			}
		})
	}
	if np := u.Fn(pDatatypes, "WiredDatatype", "NeedPush"); np != nil {
		forEachInstr(np, func(in ssa.Instruction) {
			if ret, ok := in.(*ssa.Return); ok && len(ret.Results) == 1 {
				if bo, ok := ret.Results[0].(*ssa.BinOp); ok {
					l := normLit(condEdge{bo, true})
					lc, ok2 := canonLinCmp(l)
					needPushOK := ok2 && lc.Op.String() == "<" && lc.L.K == 0 && len(lc.L.Terms) == 2
					for k, c := range lc.L.Terms {
						switch {
						case k == "$0.checkPoint.Cseq":
							needPushOK = needPushOK && c == 1
						case strings.HasSuffix(k, ".opID.Seq"):
							needPushOK = needPushOK && c == -1
						default:
							needPushOK = false
						}
					}
					r.Check(needPushOK, "WiredDatatype.NeedPush", u.Pos(ret.Pos()), "checkPoint.Cseq < opID.Seq", "NeedPush is "+lc.String())
				}
			}
		})
	}
}

// semaphore discipline of the manager (R18.5, R20.2, R20.3)
func ruleR18_5(w *World, r *Report) {
	u := w.Client()
	r.Rule("R18.5", "in realtime mode a delivered transaction starts a sync under the manager's semaphore; the semaphore is released on every exit (deferred) and, after releasing, the manager re-checks NeedPush and re-delivers (no lost wake-up, no leaked semaphore)", 3)
	fn := u.Fn(pCManagers, "DatatypeManager", "DeliverTransaction")
	if fn == nil {
		r.Lost("DatatypeManager.DeliverTransaction")
		return
	}
	var g *ssa.Go
	forEachInstr(fn, func(in ssa.Instruction) {
		if x, ok := in.(*ssa.Go); ok {
			g = x
		}
	})
	if g == nil {
		r.Bad("DeliverTransaction/realtime sync", u.Pos(fn.Pos()), "a delivered transaction no longer starts a background sync")
		return
	}
	lin, _ := pathLinCmps(fn, g, nil)
	r.Check(allPathsHave(lin, "+$0.ctx.Client.SyncType-2 == 0"), "DeliverTransaction/realtime only", u.Pos(g.Pos()), "only for SyncType_REALTIME", fmt.Sprintf("the background sync starts under %v", lin))
	body := startedBody(&g.Call)
	if body == nil {
		r.Undecided("DeliverTransaction/goroutine", u.Pos(g.Pos()), "the body of the goroutine could not be resolved")
		return
	}
	semaSection(u, r, body, "DeliverTransaction$goroutine", "TryAcquire", true)
}

// semaSection: acquire -> defer release (+ optional NeedPush re-check) -> sync.
func semaSection(u *Universe, r *Report, fn *ssa.Function, owner, acquire string, recheck bool) {
	var acq *ssa.Call
	for _, c := range callsNamed(fn, acquire) {
		acq, _ = c.(*ssa.Call)
	}
	if acq == nil {
		r.Bad(owner+"/semaphore", u.Pos(fn.Pos()), "the exchange is no longer serialised by the manager's semaphore ("+acquire+" is gone)")
		return
	}
	// syncs only on the success edge
	for _, c := range callsNamed(fn, "sync", "syncPushPullPacks") {
		lits, _ := litStrings(fn, c.(ssa.Instruction))
		ok := allPathsContain(lits, acquire+"(")
		for _, p := range lits {
			for _, l := range p {
				if strings.HasPrefix(l, "!"+acquire+"(") || (acquire == "Acquire" && strings.Contains(l, "Acquire(") && strings.Contains(l, "!= nil")) {
					ok = false
				}
			}
		}
		r.Check(ok, owner+"/sync under the semaphore", u.Pos(c.Pos()), "sync only after a successful "+acquire, fmt.Sprintf("the exchange runs under %v", lits))
	}
	// release deferred right after the acquire, before the sync
	var def *ssa.Defer
	forEachInstr(fn, func(in ssa.Instruction) {
		d, ok := in.(*ssa.Defer)
		if !ok {
			return
		}
		if calleeName(d) == "Release" {
			def = d
		}
		if b := startedBody(&d.Call); b != nil && calleeName(d) != "Release" && len(callsNamed(b, "Release")) > 0 {
			def = d
		}
	})
	okDef := def != nil
	if okDef {
		// nothing leaves the function between the successful acquire and the defer
		forEachInstr(fn, func(in ssa.Instruction) {
			ret, isRet := in.(*ssa.Return)
			if !isRet || instrDominates(def, ret) {
				return
			}
			lits, _ := litStrings(fn, ret)
			for _, p := range lits {
				failed := false
				for _, l := range p {
					if strings.HasPrefix(l, "!"+acquire+"(") || (strings.Contains(l, acquire+"(") && strings.HasSuffix(l, "!= nil")) {
						failed = true
					}
				}
				if !failed {
					okDef = false
				}
			}
		})
	}
	if okDef {
		for _, c := range callsNamed(fn, "sync", "syncPushPullPacks", "CreatePushPullPack") {
			if !instrDominates(def, c.(ssa.Instruction)) {
				okDef = false
			}
		}
	}
	r.Check(okDef, owner+"/release on every exit", u.Pos(acq.Pos()), "defer Release placed before the exchange", "the semaphore is not released by a defer placed before the exchange: an error return or panic of the sync leaks it, and every later sync of this client blocks or is silently skipped")
	if recheck && def != nil {
		df := startedBody(&def.Call)
		if calleeName(def) == "Release" {
			df = nil
		}
		if df != nil {
			flatRoot(df)
			defer flatRoot(fn)
		}
		good := false
		if df != nil {
			var rel, np, dl ssa.CallInstruction
			for _, c := range callsNamed(df, "Release") {
				rel = c
			}
			for _, c := range callsNamed(df, "NeedPush") {
				np = c
			}
			for _, c := range callsNamed(df, "DeliverTransaction") {
				dl = c
			}
			if rel != nil && np != nil && dl != nil {
				lits, _ := litStrings(df, dl.(ssa.Instruction))
				good = instrDominates(rel.(ssa.Instruction), np.(ssa.Instruction)) && allPathsContain(lits, "NeedPush(")
			}
		}
		r.Check(good, owner+"/re-check after release", u.Pos(def.Pos()), "Release, then NeedPush -> DeliverTransaction", "after releasing the semaphore the manager does not re-check NeedPush and re-deliver: operations issued while a sync was running are never pushed")
		// the semaphore is shared by all datatypes of the client: the re-check looks at every registered datatype,
		// not only at the one that has just synced (F33)
		all := false
		seen := ""
		if df != nil {
			for _, c := range callsNamed(df, "NeedPush") {
				recv, _ := recvAndArgs(c)
				o := origins(recv)
				seen = canonName(recv)
				if o.has("field:DatatypeManager.dataMap") || strings.Contains(seen, "dataMap") {
					all = true
				}
			}
			if len(callsNamed(df, "needPush")) > 0 {
				all = true
			}
		}
		r.Check(all, owner+"/re-check covers every datatype", u.Pos(def.Pos()), "NeedPush asked of the datatypes in dataMap", "after releasing the shared semaphore only "+seen+" is asked NeedPush: the delivery of another datatype that gave up at TryAcquire meanwhile is never repeated, its operations stay unpushed until the next local operation or Sync() (F33)")
	}
}

var _ = ast.Inspect
var _ = sort.Strings

// startedBody: the function a go / defer statement runs: the closure it creates, or the (orda) function or method it
// names. A closure that a refactoring turned into a named method keeps its role.
func startedBody(c *ssa.CallCommon) *ssa.Function {
	if mc, ok := c.Value.(*ssa.MakeClosure); ok {
		f, _ := mc.Fn.(*ssa.Function)
		return f
	}
	if f := c.StaticCallee(); f != nil && f.Pkg != nil && isOrda(f.Pkg.Pkg.Path()) && len(f.Blocks) > 0 {
		return f
	}
	return nil
}
