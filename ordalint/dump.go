package main

import (
	"fmt"
	"strings"

	"golang.org/x/tools/go/ssa"
)

// dumpFn prints the canonical view the rules have of one function (development aid).
func dumpFn(w *World, spec string) {
	parts := strings.Split(spec, ":")
	if len(parts) != 4 {
		fmt.Println("usage: -dump client|server:pkgpath-suffix:Recv:name")
		return
	}
	u := w.uni(parts[0])
	var fn *ssa.Function
	for path := range u.Pkgs {
		if strings.HasSuffix(path, parts[1]) {
			if f := u.Fn(path, parts[2], parts[3]); f != nil {
				fn = f
			}
		}
	}
	if fn == nil {
		fmt.Println("not found")
		return
	}
	for _, f := range withClosures(fn) {
		fmt.Println("== ", fnName(f))
		for _, b := range f.Blocks {
			for _, in := range b.Instrs {
				switch x := in.(type) {
				case *ssa.Store:
					fmt.Printf("  b%d store %s <- %s\n", b.Index, canonName(x.Addr), canonLinear(x.Val))
				case *ssa.MapUpdate:
					fmt.Printf("  b%d mapupdate %s[%s] <- %s\n", b.Index, canonName(x.Map), canonName(x.Key), canonName(x.Value))
				case *ssa.Return:
					var rs []string
					for _, r := range x.Results {
						rs = append(rs, canonLinear(r).String())
					}
					fmt.Printf("  b%d return %s\n", b.Index, strings.Join(rs, " ; "))
				case *ssa.Slice:
					fmt.Printf("  b%d slice %s\n", b.Index, canonName(x))
				case *ssa.If:
					l := normLit(condEdge{x.Cond, true})
					if lc, ok := canonLinCmp(l); ok {
						fmt.Printf("  b%d if %s   -> b%d / b%d\n", b.Index, lc, b.Succs[0].Index, b.Succs[1].Index)
					} else {
						fmt.Printf("  b%d if[%s] %s -> b%d / b%d\n", b.Index, l.Kind, canonName(x.Cond), b.Succs[0].Index, b.Succs[1].Index)
					}
				case ssa.CallInstruction:
					var as []string
					for _, a := range x.Common().Args {
						as = append(as, canonName(a))
					}
					fmt.Printf("  b%d %T %s(%s)\n", b.Index, in, calleeName(x), strings.Join(as, ", "))
				case *ssa.Send:
					fmt.Printf("  b%d send %s <- %s\n", b.Index, canonName(x.Chan), canonName(x.X))
				}
			}
		}
	}
}
