package main

import (
	"bytes"
	"fmt"
	"go/ast"
	"go/parser"
	"go/token"
	"os"
	"path/filepath"
	"sort"
	"strings"
)

// Source normalisation (read-only: it only adds in-memory overlay entries for the loader).
//
// One shape of code defeats every path rule at once although it changes nothing: a fixed table of method values
// (or function names) walked by a range loop,
//
//	steps := [...]func() errors.OrdaError{its.pushOperations, its.pullOperations, its.commitToMongoDB}
//	for _, step := range steps {
//		if its.err = step(); its.err != nil {
//			return
//		}
//	}
//
// because the calls become dynamic calls of bound-method closures and their order lives in data. Such a loop is
// read as what it means: its body once per element, in order, with the loop variable replaced by the element. The
// rewrite is done on the source text handed to the type checker (the files on disk are not touched); `//line`
// directives keep the positions of everything after the loop. It applies only when the rewrite is certainly
// meaning-preserving: the table is a local composite literal used by nothing but this range statement, its
// elements are plain (selector chains of identifiers), and the body neither branches out of the loop (break,
// continue, goto) nor assigns to or takes the address of the loop variable.

type textEdit struct {
	start, end int
	repl       string
}

var normalisedNotes []string

// stageTableOverlay returns overlay extended by the normalised text of every file below dir that has such a loop.
func stageTableOverlay(dir string, overlay map[string][]byte) map[string][]byte {
	out := overlay
	copied := false
	_ = filepath.Walk(dir, func(path string, info os.FileInfo, err error) error {
		if err != nil {
			return nil
		}
		if info.IsDir() {
			n := info.Name()
			if path != dir && (strings.HasPrefix(n, ".") || n == "vendor" || n == "testdata" || n == "node_modules") {
				return filepath.SkipDir
			}
			return nil
		}
		if !strings.HasSuffix(path, ".go") || strings.HasSuffix(path, "_test.go") || strings.HasSuffix(path, ".pb.go") {
			return nil
		}
		src, ok := overlay[path]
		if !ok {
			b, err := os.ReadFile(path)
			if err != nil {
				return nil
			}
			src = b
		}
		if !bytes.Contains(src, []byte("range")) {
			return nil
		}
		if res, notes := unrollTables(path, src); res != nil {
			if !copied {
				cp := map[string][]byte{}
				for k, v := range overlay {
					cp[k] = v
				}
				out = cp
				copied = true
			}
			out[path] = res
			normalisedNotes = append(normalisedNotes, notes...)
		}
		return nil
	})
	sort.Strings(normalisedNotes)
	return out
}

func plainElement(e ast.Expr) bool {
	switch x := e.(type) {
	case *ast.Ident:
		return true
	case *ast.SelectorExpr:
		return plainElement(x.X)
	case *ast.ParenExpr:
		return plainElement(x.X)
	}
	return false
}

// unrollTables returns the rewritten source, or nil when the file has no loop of that shape.
func unrollTables(path string, src []byte) ([]byte, []string) {
	fset := token.NewFileSet()
	f, err := parser.ParseFile(fset, path, src, parser.ParseComments)
	if err != nil {
		return nil, nil
	}
	tf := fset.File(f.Pos())
	if tf == nil {
		return nil, nil
	}
	off := func(p token.Pos) int { return tf.Offset(p) }
	lineStart := func(o int) int {
		for o > 0 && src[o-1] != '\n' {
			o--
		}
		return o
	}
	lineEnd := func(o int) int { // offset just after the newline that ends the line containing o
		for o < len(src) && src[o] != '\n' {
			o++
		}
		if o < len(src) {
			o++
		}
		return o
	}
	onlySpaceBetween := func(a, b int) bool {
		return len(bytes.TrimSpace(src[a:b])) == 0
	}
	var edits []textEdit
	var notes []string
	ast.Inspect(f, func(n ast.Node) bool {
		fd, ok := n.(*ast.FuncDecl)
		if !ok || fd.Body == nil {
			return true
		}
		uses := map[*ast.Object]int{}
		ast.Inspect(fd, func(m ast.Node) bool {
			if id, ok := m.(*ast.Ident); ok && id.Obj != nil {
				uses[id.Obj]++
			}
			return true
		})
		ast.Inspect(fd.Body, func(m ast.Node) bool {
			blk, ok := m.(*ast.BlockStmt)
			if !ok {
				return true
			}
			for _, st := range blk.List {
				rs, ok := st.(*ast.RangeStmt)
				if !ok || rs.Tok != token.DEFINE || rs.Value == nil {
					continue
				}
				if rs.Key != nil {
					if k, isID := rs.Key.(*ast.Ident); !isID || k.Name != "_" {
						continue
					}
				}
				v, ok := rs.Value.(*ast.Ident)
				if !ok || v.Obj == nil || v.Name == "_" {
					continue
				}
				arr, ok := rs.X.(*ast.Ident)
				if !ok || arr.Obj == nil || uses[arr.Obj] != 2 {
					continue
				}
				as, ok := arr.Obj.Decl.(*ast.AssignStmt)
				if !ok || as.Tok != token.DEFINE || len(as.Lhs) != 1 || len(as.Rhs) != 1 {
					continue
				}
				inBlock := false
				for _, s2 := range blk.List {
					if s2 == ast.Stmt(as) {
						inBlock = true
					}
				}
				cl, ok := as.Rhs[0].(*ast.CompositeLit)
				if !inBlock || !ok || len(cl.Elts) == 0 || len(cl.Elts) > 8 {
					continue
				}
				if at, isArr := cl.Type.(*ast.ArrayType); !isArr {
					continue
				} else if _, isFn := at.Elt.(*ast.FuncType); !isFn {
					continue
				}
				plain := true
				for _, e := range cl.Elts {
					if !plainElement(e) {
						plain = false
					}
				}
				if !plain {
					continue
				}
				// the body: no way out of the loop but its end or a return, the loop variable only read
				safe := true
				var occ []*ast.Ident
				ast.Inspect(rs.Body, func(b ast.Node) bool {
					switch x := b.(type) {
					case *ast.BranchStmt:
						safe = false
					case *ast.LabeledStmt:
						safe = false
					case *ast.AssignStmt:
						for _, l := range x.Lhs {
							if id, isID := l.(*ast.Ident); isID && id.Obj == v.Obj {
								safe = false
							}
						}
					case *ast.IncDecStmt:
						if id, isID := x.X.(*ast.Ident); isID && id.Obj == v.Obj {
							safe = false
						}
					case *ast.UnaryExpr:
						if id, isID := x.X.(*ast.Ident); isID && id.Obj == v.Obj && x.Op == token.AND {
							safe = false
						}
					case *ast.Ident:
						if x.Obj == v.Obj {
							occ = append(occ, x)
						}
					}
					return true
				})
				if !safe {
					continue
				}
				// whole lines only
				asStart, asEnd := lineStart(off(as.Pos())), lineEnd(off(as.End()))
				rsStart, rsEnd := lineStart(off(rs.Pos())), lineEnd(off(rs.End()))
				if !onlySpaceBetween(asStart, off(as.Pos())) || !onlySpaceBetween(off(as.End()), asEnd) ||
					!onlySpaceBetween(rsStart, off(rs.Pos())) || !onlySpaceBetween(off(rs.End()), rsEnd) {
					continue
				}
				bodyStart, bodyEnd := off(rs.Body.Lbrace)+1, off(rs.Body.Rbrace)
				sort.Slice(occ, func(i, j int) bool { return occ[i].Pos() < occ[j].Pos() })
				var gen strings.Builder
				for _, e := range cl.Elts {
					et := string(src[off(e.Pos()):off(e.End())])
					gen.WriteString("{")
					cur := bodyStart
					for _, id := range occ {
						o := off(id.Pos())
						gen.Write(src[cur:o])
						gen.WriteString(et)
						cur = o + len(id.Name)
					}
					gen.Write(src[cur:bodyEnd])
					gen.WriteString("}\n")
				}
				gen.WriteString(fmt.Sprintf("//line %s:%d\n", path, tf.Line(rs.End())+1))
				edits = append(edits, textEdit{rsStart, rsEnd, gen.String()})
				edits = append(edits, textEdit{asStart, asEnd, fmt.Sprintf("//line %s:%d\n", path, tf.Line(as.End())+1)})
				notes = append(notes, fmt.Sprintf("the loop over the table %s in %s (%s:%d) is read as its body once per element, in order", arr.Name, fd.Name.Name, filepath.Base(path), tf.Line(rs.Pos())))
			}
			return true
		})
		return false
	})
	if len(edits) == 0 {
		return nil, nil
	}
	sort.Slice(edits, func(i, j int) bool { return edits[i].start > edits[j].start })
	out := append([]byte(nil), src...)
	for i, e := range edits {
		if i > 0 && e.end > edits[i-1].start {
			return nil, nil // overlapping rewrites: leave the file as it is
		}
		out = append(append(append([]byte(nil), out[:e.start]...), []byte(e.repl)...), out[e.end:]...)
	}
	// the result must still parse
	if _, err := parser.ParseFile(token.NewFileSet(), path, out, parser.ParseComments); err != nil {
		return nil, nil
	}
	return out, notes
}
