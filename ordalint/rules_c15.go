package main

import (
	"fmt"
	"sort"
	"strings"

	"golang.org/x/tools/go/ssa"
)

// R15.1 the identity key is injective
func ruleR15_1(w *World, r *Report) {
	u := w.Client()
	r.Rule("R15.1", "the string key under which a timestamp indexes the snapshot maps is an injective format over (Era, Lamport, Delimiter, CUID): distinct element identities never share a key", 1)
	fn := u.Fn(pModel, "Timestamp", "Hash")
	if fn == nil {
		r.Lost("model.Timestamp.Hash")
		return
	}
	ss := sprintfSites(fn)
	if len(ss) != 1 {
		r.Undecided("Timestamp.Hash/format", u.Pos(fn.Pos()), fmt.Sprintf("%d format calls found, expected one", len(ss)))
		return
	}
	s := ss[0]
	var names []string
	for _, o := range s.Opnds {
		names = append(names, lastDot(canonName(o)))
	}
	sorted := append([]string(nil), names...)
	sort.Strings(sorted)
	inj, why := formatInjective(s.Format, s.Types)
	all := strings.Join(sorted, ",") == "CUID,Delimiter,Era,Lamport"
	r.Check(inj && all, "Timestamp.Hash/format", u.Pos(s.Call.Pos()), fmt.Sprintf("%q over (%s): %s", s.Format, strings.Join(names, ","), why),
		fmt.Sprintf("key format %q over (%s): %s; expected an injective format over Era, Lamport, Delimiter and CUID", s.Format, strings.Join(names, ","), why))
}

// recursiveFns: functions of pkg that can reach themselves.
func recursiveFns(v *cgView, fns []*ssa.Function) map[*ssa.Function]bool {
	out := map[*ssa.Function]bool{}
	for _, f := range fns {
		for _, c := range v.callees(f) {
			if _, ok := v.reach([]*ssa.Function{c}, nil)[f]; ok {
				out[f] = true
			}
		}
	}
	return out
}

// R15.3 every element gets its own delimiter
func ruleR15_3(w *World, r *Report) {
	u := w.Client()
	r.Rule("R15.3", "wherever an element identity is created or re-stamped more than once per operation (inside a loop, or in the recursive JSON builders), the timestamp comes directly from GetAndNextDelimiter, never from the operation's timestamp itself", 9)
	v := newCGView(u, false)
	fns := u.ordaFuncs(ordaOnly)
	rec := recursiveFns(v, fns)
	ctors := map[string]int{"newTimedNode": 1, "newJSONElement": 2, "newJSONArray": 2, "newJSONObject": 2}
	stampers := map[string]bool{"setTime": true, "makeTomb": true}
	n := 0
	for _, fn := range fns {
		name := fnName(fn)
		if strings.Contains(strings.ToLower(fn.Name()), "unmarshal") {
			continue
		}
		for _, c := range callsIn(fn) {
			cn := calleeName(c)
			var ts ssa.Value
			if idx, ok := ctors[cn]; ok && staticCallee(c) != nil {
				ts = c.Common().Args[idx]
			} else if stampers[cn] {
				_, args := recvAndArgs(c)
				if len(args) == 1 {
					ts = args[0]
				}
			}
			if ts == nil {
				continue
			}
			multi := inLoop(c.Block()) || rec[fn] || enteredInLoop(fn)
			if !multi {
				continue
			}
			n++
			ok := false
			src := throughHelperParam(ts)
			if ph, isPhi := src.(*ssa.Phi); isPhi && len(ph.Edges) == 1 {
				src = ph.Edges[0]
			}
			if call, isCall := src.(*ssa.Call); isCall && calleeName(call) == "GetAndNextDelimiter" {
				ok = true
			}
			r.Check(ok, name+"/"+cn+" timestamp", u.Pos(c.Pos()), "fresh delimiter", "an element created or stamped repeatedly within one operation takes "+exprName(ts)+" instead of a fresh GetAndNextDelimiter(): several elements share one identity")
		}
	}
	if n < 9 {
		r.Lost(fmt.Sprintf("repeated element constructions (found %d)", n))
	}
	// the recursive builders number all nodes of one operation from ONE counter: every recursive
	// call is handed the caller's own timestamp parameter, never a copy of it
	nRec := 0
	for _, fn := range fns {
		if !rec[fn] || strings.Contains(strings.ToLower(fn.Name()), "unmarshal") {
			continue
		}
		for _, c := range callsIn(fn) {
			callee := staticCallee(c)
			if callee == nil || !rec[callee] {
				continue
			}
			for _, a := range c.Common().Args {
				if !strings.HasSuffix(a.Type().String(), "model.Timestamp") {
					continue
				}
				nRec++
				_, isParam := throughHelperParam(a).(*ssa.Parameter)
				r.Check(isParam, fnName(fn)+"/passes its own counter to "+callee.Name(), u.Pos(c.Pos()), "the caller's timestamp parameter", "a recursive builder is handed "+exprName(a)+" instead of the caller's own timestamp: the delimiters it consumes are not seen by the caller, and later nodes of the same operation get identifiers that are already taken")
			}
		}
	}
	if nRec < 4 {
		r.Lost(fmt.Sprintf("recursive builder calls with a timestamp (found %d)", nRec))
	}
	// GetAndNextDelimiter itself: returns the current delimiter and increments
	if g := u.Fn(pModel, "Timestamp", "GetAndNextDelimiter"); g != nil {
		sts := storesTo(g, "$0.Delimiter")
		ok := len(sts) == 1 && canonLinear(sts[0].Val).String() == "+$0.Delimiter+1"
		cp := storesTo(g, "complit.Delimiter")
		if len(cp) == 0 && len(sts) == 1 {
			// the copy is taken by the type's own Clone(), before the increment
			viaClone := false
			for _, c := range callsNamed(g, "Clone") {
				recv, _ := recvAndArgs(c)
				if cl := staticCallee(c); cl != nil && recv != nil && canonName(recv) == "$0" && instrDominates(c.(ssa.Instruction), sts[0]) {
					ccp := storesTo(cl, "complit.Delimiter")
					if len(ccp) == 1 && canonName(ccp[0].Val) == "$0.Delimiter" {
						viaClone = true
					}
				}
			}
			ok = ok && viaClone
		} else {
			ok = ok && len(cp) == 1 && canonName(cp[0].Val) == "$0.Delimiter" && instrDominates(cp[0], sts[0])
		}
		r.Check(ok, "Timestamp.GetAndNextDelimiter", u.Pos(g.Pos()), "returns the current delimiter, then increments it", "GetAndNextDelimiter no longer returns a copy with the current delimiter and then increments it by one")
	} else {
		r.Lost("model.Timestamp.GetAndNextDelimiter")
	}
}

// R15.4 numbering has a closed set of writers
func ruleR15_4(w *World, r *Report) {
	u := w.Client()
	r.Rule("R15.4", "the sequence and Lamport fields of an operation id are written only by Next (+1 both), RollBack (-1 both), SyncLamport, SetOperationID, constructors and the two subscribe resets (ResetWired: Seq = 0; updateStateOfDatatype: fresh id with Lamport 1)", 7)
	expect := map[string]string{
		"OperationID.Next/Lamport":                    "+$0.Lamport+1",
		"OperationID.Next/Seq":                        "+$0.Seq+1",
		"OperationID.RollBack/Lamport":                "+$0.Lamport-1",
		"OperationID.RollBack/Seq":                    "+$0.Seq-1",
		"OperationID.SetOperationID/Lamport":          "+$1.Lamport",
		"OperationID.SetOperationID/Seq":              "+$1.Seq",
		"WiredDatatype.ResetWired/Seq":                "+0",
		"WiredDatatype.updateStateOfDatatype/Lamport": "+1",
	}
	seen := map[string]bool{}
	for _, fn := range u.ordaFuncs(func(p string) bool {
		return p == pModel || p == pDatatypes || p == pOrda || p == pCManagers || p == pOperations
	}) {
		if isGenerated(u.Fset, fn.Pos()) {
			continue
		}
		forEachInstr(fn, func(in ssa.Instruction) {
			st, ok := in.(*ssa.Store)
			if !ok {
				return
			}
			o, f, base, ok := storeField(st.Addr)
			if !ok || o != "OperationID" || (f != "Seq" && f != "Lamport") {
				return
			}
			if isFreshBase(base) {
				return
			}
			key := fnName(fn) + "/" + f
			val := canonLinear(st.Val).String()
			if key == "OperationID.SyncLamport/Lamport" {
				return // checked by R15.5
			}
			want, known := expect[key]
			seen[key] = true
			switch {
			case !known:
				r.Bad(key, u.Pos(st.Pos()), "an unexpected function writes the "+f+" of an operation id (value "+val+")")
			case val != want:
				r.Bad(key, u.Pos(st.Pos()), f+" becomes "+val+", expected "+want)
			default:
				r.OK(key, u.Pos(st.Pos()), val)
			}
		})
	}
	var ks []string
	for k := range expect {
		ks = append(ks, k)
	}
	sort.Strings(ks)
	for _, k := range ks {
		if !seen[k] {
			r.Bad(k, "", "the expected writer is gone: "+k+" = "+expect[k]+" (a reset or increment of the numbering was dropped)")
		}
	}
	// the id returned by Next is a copy taken after the increment
	if nx := u.Fn(pModel, "OperationID", "Next"); nx != nil {
		cp := storesTo(nx, "complit.Seq")
		inc := storesTo(nx, "$0.Seq")
		ok := len(cp) == 1 && len(inc) == 1 && instrDominates(inc[0], cp[0]) && canonName(cp[0].Val) == "$0.Seq"
		if !ok && len(inc) == 1 && len(cp) == 0 {
			// the copy is taken by a cloning method of the same receiver, called after the increment
			for _, c := range ownCallsIn(nx) {
				call, isCall := c.(*ssa.Call)
				if !isCall || len(call.Call.Args) == 0 || call.Call.Args[0] != ssa.Value(nx.Params[0]) {
					continue
				}
				cl := staticCallee(call)
				if cl == nil || cl == nx {
					continue
				}
				ccp := storesTo(cl, "complit.Seq")
				fresh, _ := freshResult(cl, 0, 0)
				returned := false
				forEachOwnInstr(nx, func(in ssa.Instruction) {
					if ret, isRet := in.(*ssa.Return); isRet && len(ret.Results) == 1 && ret.Results[0] == ssa.Value(call) {
						returned = true
					}
				})
				if fresh && returned && len(ccp) == 1 && canonName(ccp[0].Val) == "$0.Seq" && instrDominates(inc[0], call) {
					ok = true
				}
			}
		}
		r.Check(ok, "OperationID.Next/returns incremented copy", u.Pos(nx.Pos()), "copy after increment", "Next does not return a copy carrying the incremented sequence")
	}
}

// R15.5 clock sync before remote apply
func ruleR15_5(w *World, r *Report) {
	u := w.Client()
	r.Rule("R15.5", "ExecuteRemote is invoked only by executeRemoteBase, after SyncLamport with the operation's Lamport; SyncLamport leaves the clock at least at its argument on both edges (adopt if smaller, else tick)", 3)
	// every place that applies a received operation (executeRemoteBase in the reviewed tree; its callers when that
	// small function is inlined): the clock is synchronised with the operation's Lamport first
	nSites := 0
	for _, f := range u.ordaFuncs(func(p string) bool { return p == pDatatypes || p == pOrda || p == pCManagers }) {
		for _, c := range ownCallsIn(f) {
			if !c.Common().IsInvoke() || calleeName(c) != "ExecuteRemote" {
				continue
			}
			nSites++
			name := fnName(f)
			opArg := canonName(stripIface(c.Common().Args[len(c.Common().Args)-1]))
			good := false
			for _, s2 := range callsNamed(f, "SyncLamport") {
				if s2.Parent() != f || !instrDominates(s2.(ssa.Instruction), c.(ssa.Instruction)) {
					continue
				}
				a := canonName(s2.Common().Args[len(s2.Common().Args)-1])
				if strings.HasSuffix(a, ".Lamport") && opArg != "" && strings.Contains(a, opArg) && strings.HasSuffix(canonName(s2.Common().Args[0]), ".opID") {
					good = true
				}
			}
			cons := name + "/clock sync first"
			if name == "BaseDatatype.executeRemoteBase" {
				cons = "executeRemoteBase/clock sync first"
			}
			r.Check(good, cons, u.Pos(c.Pos()), "opID.SyncLamport(op.Lamport) before ExecuteRemote", "a remote operation is applied here without the local clock being synchronised with the operation's Lamport first: later local operations can be ordered before operations this replica has already applied")
			inDatatypes := f.Pkg != nil && f.Pkg.Pkg.Path() == pDatatypes
			r.Check(inDatatypes, name+"/invokes ExecuteRemote", u.Pos(c.Pos()), "in the datatype layer", "a remote operation is applied outside the datatype layer (no clock synchronisation, no transaction)")
		}
	}
	if nSites == 0 {
		r.Lost("the datatype layer: ExecuteRemote")
		return
	}
	sl := u.Fn(pModel, "OperationID", "SyncLamport")
	if sl == nil {
		r.Lost("model.OperationID.SyncLamport")
		return
	}
	sts := storesTo(sl, "$0.Lamport")
	okS := len(sts) == 2
	for _, st := range sts {
		paths, _ := pathLinCmps(sl, st, nil)
		val := canonLinear(st.Val).String()
		switch val {
		case "+$1":
			okS = okS && allPathsHave(paths, "+$0.Lamport-$1 < 0")
		case "+$0.Lamport+1":
			okS = okS && allPathsHave(paths, "-$0.Lamport+$1 <= 0")
		default:
			okS = false
		}
	}
	r.Check(okS, "OperationID.SyncLamport", u.Pos(sl.Pos()), "Lamport = other if Lamport < other, else Lamport+1", "SyncLamport no longer adopts a larger remote clock and ticks otherwise")
}
