package main

import (
	"fmt"
	"go/types"
	"os"
	"regexp"
	"sort"
	"strings"

	"golang.org/x/tools/go/ssa"
)

func boolLitOn(l Lit, suffix string) (bool, bool) { // (matches, polarity)
	if l.Kind == "bool" && strings.HasSuffix(canonName(l.X), suffix) {
		return true, l.Pol
	}
	return false, false
}

// R09.1 a failing body marks the transaction failed
func ruleR09_1(w *World, r *Report) {
	u := w.Client()
	r.Rule("R09.1", "DoTransaction defers EndTransaction and, on every path where the user function returned a non-nil error, calls SetTransactionFail before returning an error", 2)
	fn := u.Fn(pDatatypes, "TransactionDatatype", "DoTransaction")
	if fn == nil {
		r.Lost("TransactionDatatype.DoTransaction")
		return
	}
	// the call of the function-typed parameter
	var body *ssa.Call
	for _, c := range callsIn(fn) {
		if call, ok := c.(*ssa.Call); ok {
			if _, isParam := stripLoad(call.Call.Value).(*ssa.Parameter); isParam && !call.Call.IsInvoke() {
				body = call
			}
		}
	}
	var begin *ssa.Call
	for _, c := range callsNamed(fn, "BeginTransaction") {
		begin, _ = c.(*ssa.Call)
	}
	if body == nil || begin == nil {
		r.Lost("DoTransaction: BeginTransaction and the call of the user function")
		return
	}
	// deferred EndTransaction (directly or in a deferred closure), placed before the body
	deferred := false
	forEachInstr(fn, func(in ssa.Instruction) {
		d, ok := in.(*ssa.Defer)
		if !ok || !instrDominates(d, body) {
			return
		}
		if calleeName(d) == "EndTransaction" {
			deferred = true
		}
		if mc, ok := d.Call.Value.(*ssa.MakeClosure); ok {
			if len(callsNamed(mc.Fn.(*ssa.Function), "EndTransaction")) > 0 {
				deferred = true
			}
		}
	})
	r.Check(deferred && instrDominates(begin, body), "DoTransaction/begin-defer-end", u.Pos(body.Pos()), "BeginTransaction, then deferred EndTransaction, then the body", "the user function is not bracketed by BeginTransaction and a deferred EndTransaction")
	// error edge
	good := false
	detail := "the error of the user function is not tested"
	for _, b := range fn.Blocks {
		if len(b.Instrs) == 0 {
			continue
		}
		ifi, ok := b.Instrs[len(b.Instrs)-1].(*ssa.If)
		if !ok {
			continue
		}
		l := normLit(condEdge{ifi.Cond, true})
		var succ *ssa.BasicBlock
		if isNilCheckOf(l, body, false) {
			succ = b.Succs[0]
		} else if isNilCheckOf(l, body, true) {
			succ = b.Succs[1]
		} else {
			continue
		}
		okFail, _ := mustReachFromBlock(succ, func(in ssa.Instruction) bool {
			c, ok := in.(ssa.CallInstruction)
			return ok && calleeName(c) == "SetTransactionFail"
		})
		okRet := errEdgeWalk(succ, func(*ssa.BasicBlock) *ssa.BasicBlock { return nil })
		good = okFail && okRet
		if !okFail {
			detail = "a path on which the user function failed returns without SetTransactionFail: the transaction would be committed"
		} else if !okRet {
			detail = "a failing transaction returns a nil error"
		}
	}
	r.Check(good, "DoTransaction/fail-on-error", u.Pos(body.Pos()), "err != nil -> SetTransactionFail -> error", detail)
}

func stripLoad(v ssa.Value) ssa.Value {
	for {
		switch x := v.(type) {
		case *ssa.UnOp:
			v = x.X
		case *ssa.Alloc:
			if refs := x.Referrers(); refs != nil {
				for _, r := range *refs {
					if st, ok := r.(*ssa.Store); ok && st.Addr == x {
						return stripLoad(st.Val)
					}
				}
			}
			return v
		default:
			return v
		}
	}
}

// R09.2 commit and rollback are gated by the success flag
func ruleR09_2(w *World, r *Report) {
	u := w.Client()
	r.Rule("R09.2", "EndTransaction delivers the buffered operations and records them for later rollbacks only when the transaction succeeded (the recording does not depend on local/remote), rolls back only when it failed, announces the unit's length before delivery, and releases the lock on every exit", 5)
	fn := u.Fn(pDatatypes, "TransactionDatatype", "EndTransaction")
	if fn == nil {
		r.Lost("TransactionDatatype.EndTransaction")
		return
	}
	owner := "TransactionDatatype.EndTransaction"
	pathsFlags := func(in ssa.Instruction) (succ, notSucc, local, withOp int, n int) {
		paths, _ := reachingLits(fn, nil, in)
		for _, p := range paths {
			n++
			for _, l := range p {
				if m, pol := boolLitOn(l, ".success"); m {
					if pol {
						succ++
					} else {
						notSucc++
					}
				}
				lx := l.X
				if l.Kind == "bool" {
					lx = throughHelperParam(l.X) // the flag as a parameter of a new helper stands for the caller's argument
				}
				if l.Kind == "bool" && len(fn.Params) >= 4 && lx == ssa.Value(fn.Params[3]) {
					local++
				}
				if l.Kind == "bool" && len(fn.Params) >= 3 && lx == ssa.Value(fn.Params[2]) && l.Pol {
					withOp++
				}
			}
		}
		return
	}
	// deliver
	var deliver, setNum, rollback ssa.CallInstruction
	for _, c := range callsNamed(fn, "DeliverTransaction") {
		deliver = c
	}
	for _, c := range callsNamed(fn, "SetNumOfOps") {
		setNum = c
	}
	for _, c := range callsNamed(fn, "Rollback") {
		rollback = c
	}
	if deliver == nil || setNum == nil || rollback == nil {
		r.Lost(owner + ": DeliverTransaction, SetNumOfOps, Rollback")
		return
	}
	s, _, loc, _, n := pathsFlags(deliver.(ssa.Instruction))
	r.Check(n > 0 && s == n && loc == n && strings.HasSuffix(canonName(deliver.Common().Args[len(deliver.Common().Args)-1]), ".txCtx.opBuffer"), owner+"/deliver", u.Pos(deliver.Pos()), "delivered only on success, only for local transactions",
		"operations are delivered for push on a path where the transaction did not succeed (or is not local), or something other than the transaction buffer is delivered")
	_, ns, _, _, n2 := pathsFlags(rollback.(ssa.Instruction))
	r.Check(n2 > 0 && ns == n2, owner+"/rollback", u.Pos(rollback.Pos()), "rolled back only on failure", "Rollback runs on a path where the transaction succeeded, or not on every failing path")
	// rollbackOps append
	apps := storesTo(fn, ".rollbackOps")
	if len(apps) == 0 {
		r.Bad(owner+"/record for rollback", u.Pos(fn.Pos()), "committed operations are no longer recorded for replay by a later rollback")
	}
	for _, st := range apps {
		s3, _, loc3, _, n3 := pathsFlags(st)
		// the whole buffer (the transaction marker included: a replay must consume the same identifiers) is recorded
		good := n3 > 0 && s3 == n3 && loc3 == 0 && canonName(st.Val) == "append($0.rollbackOps,$0.txCtx.opBuffer)"
		r.Check(good, owner+"/record for rollback", u.Pos(st.Pos()), "recorded on success for local and remote operations alike",
			"the operations committed since the rollback snapshot are recorded only on some paths (e.g. only for local operations), or not the whole transaction buffer is recorded (recorded: "+canonName(st.Val)+"): a later rollback restores the snapshot and loses the others, or replays them under shifted identifiers")
	}
	// every successful end records the buffer: from the true edge of the success test each path reaches the store to
	// rollbackOps or leaves with an error (an "empty transaction" shortcut would keep the identifier the marker took
	// out of the replay list and out of the push buffer: later identifiers shift, the push buffer has a hole)
	for _, b := range fn.Blocks {
		if len(b.Instrs) == 0 {
			continue
		}
		ifi, isIf := b.Instrs[len(b.Instrs)-1].(*ssa.If)
		if !isIf {
			continue
		}
		l := normLit(condEdge{ifi.Cond, true})
		if m, _ := boolLitOn(l, ".success"); !m {
			continue
		}
		entry := b.Succs[0]
		if !l.Pol {
			entry = b.Succs[1]
		}
		reach, bad := mustReachFromBlock(entry, func(in ssa.Instruction) bool {
			if st, ok := in.(*ssa.Store); ok && strings.HasSuffix(canonName(st.Addr), ".rollbackOps") {
				return true
			}
			if ret, ok := in.(*ssa.Return); ok && returnsNonNilLast(ret) {
				return true
			}
			return false
		})
		pos := u.Pos(ifi.Pos())
		if bad != nil {
			pos = u.Pos(bad.Pos())
		}
		r.Check(reach, owner+"/every successful end is recorded", pos, "rollbackOps updated on every successful path", "a successful transaction can end without its buffer being recorded (and delivered): the operation identifier its marker consumed is neither replayed by a later rollback nor pushed")
	}
	// every successful local end delivers the buffer: from the true edge of the isLocal test (under success) each path
	// reaches DeliverTransaction (a "nothing was executed" shortcut leaves the marker's sequence number as a gap: the
	// server refuses every later push of the replica as missing operations)
	for _, b := range fn.Blocks {
		if len(b.Instrs) == 0 || len(fn.Params) < 4 {
			continue
		}
		ifi, isIf := b.Instrs[len(b.Instrs)-1].(*ssa.If)
		if !isIf {
			continue
		}
		l := normLit(condEdge{ifi.Cond, true})
		if l.Kind != "bool" || throughHelperParam(l.X) != ssa.Value(fn.Params[3]) {
			continue
		}
		entry := b.Succs[0]
		if !l.Pol {
			entry = b.Succs[1]
		}
		// only the test that guards the delivery (the rollbackOps test above handles recording)
		guards := false
		for _, c := range callsNamed(fn, "DeliverTransaction") {
			if entry == c.Block() || entry.Dominates(c.Block()) {
				guards = true
			}
		}
		if !guards {
			// the delivery is not below this edge at all: judged by the deliver clause above
			reachable := false
			for _, c := range callsNamed(fn, "DeliverTransaction") {
				if reachableBlock(entry, c.Block()) {
					reachable = true
				}
			}
			if !reachable {
				continue
			}
		}
		reach, _ := mustReachFromBlock(entry, func(in ssa.Instruction) bool {
			if ci, ok := in.(ssa.CallInstruction); ok && calleeName(ci) == "DeliverTransaction" {
				return true
			}
			if ret, ok := in.(*ssa.Return); ok && returnsNonNilLast(ret) {
				return true
			}
			return false
		})
		r.Check(reach, owner+"/every successful local end is delivered", u.Pos(ifi.Pos()), "DeliverTransaction on every local path", "a successful local transaction can end without being delivered (e.g. when it executed nothing): the sequence number its marker took is never pushed, and the server refuses all later operations of the replica as missing operations")
	}
	// SetNumOfOps(len(opBuffer)) before delivery on withOp paths
	arg := canonName(setNum.Common().Args[len(setNum.Common().Args)-1])
	okNum := arg == "len($0.txCtx.opBuffer)" && !reachableFrom(deliver.(ssa.Instruction), setNum.(ssa.Instruction))
	paths, _ := pathsWithBlocks(fn, nil, deliver.Block())
	for _, p := range paths {
		withOp := false
		for _, l := range p.Lits {
			if l.Kind == "bool" && l.X == ssa.Value(fn.Params[2]) && l.Pol {
				withOp = true
			}
		}
		if withOp && !p.Blocks[setNum.Block()] {
			okNum = false
		}
	}
	r.Check(okNum, owner+"/announce length", u.Pos(setNum.Pos()), "SetNumOfOps(len(opBuffer)) before delivery", "the transaction operation does not announce len(opBuffer) before the unit is delivered (got "+arg+")")
	// unlock deferred on the owner path
	okUnlock := false
	forEachInstr(fn, func(in ssa.Instruction) {
		if d, ok := in.(*ssa.Defer); ok {
			// defer its.unlock(), or the same inlined as a deferred closure that unlocks the datatype mutex
			releases := calleeName(d) == "unlock"
			if b := startedBody(&d.Call); b != nil && !releases {
				for _, c := range callsNamed(b, "Unlock") {
					if recv, _ := recvAndArgs(c); recv != nil && strings.HasSuffix(canonName(recv), ".mutex") {
						releases = true
					}
				}
			}
			if releases {
				okUnlock = instrDominates(d, deliver.(ssa.Instruction)) && instrDominates(d, rollback.(ssa.Instruction))
			}
		}
	})
	r.Check(okUnlock, owner+"/unlock deferred", u.Pos(fn.Pos()), "unlock deferred before commit/rollback", "the datatype lock is not released by a defer placed before the commit and rollback branches")
}

// R09.3 rollback = restore + replay
func ruleR09_3(w *World, r *Report) {
	u := w.Client()
	r.Rule("R09.3", "Rollback restores meta and snapshot from the rollback copies, then replays every operation committed since, propagating every error, and finally refreshes the rollback copies from the replayed state and forgets the replayed operations", 6)
	fn := u.Fn(pDatatypes, "TransactionDatatype", "Rollback")
	if fn == nil {
		r.Lost("TransactionDatatype.Rollback")
		return
	}
	var set, replay, get *ssa.Call
	for _, c := range callsNamed(fn, "SetMetaAndSnapshot") {
		set, _ = c.(*ssa.Call)
	}
	for _, c := range callsNamed(fn, "Replay") {
		replay, _ = c.(*ssa.Call)
	}
	for _, c := range callsNamed(fn, "GetMetaAndSnapshot") {
		get, _ = c.(*ssa.Call)
	}
	if set == nil || replay == nil || get == nil {
		r.Bad("TransactionDatatype.Rollback/restore-replay-refresh", u.Pos(fn.Pos()), "Rollback no longer consists of SetMetaAndSnapshot, a Replay loop and GetMetaAndSnapshot")
		return
	}
	args := set.Call.Args
	okArgs := len(args) >= 2 && strings.HasSuffix(canonName(args[len(args)-2]), ".rollbackMeta") && strings.HasSuffix(canonName(args[len(args)-1]), ".rollbackSnapshot")
	r.Check(okArgs && instrDominates(set, replay) && guardedByNilErr(fn, replay, set), "TransactionDatatype.Rollback/restore first", u.Pos(set.Pos()), "SetMetaAndSnapshot(rollbackMeta, rollbackSnapshot) precedes the replay", "the replay is not preceded by a successful restore of (rollbackMeta, rollbackSnapshot)")
	okReplay := inLoop(replay.Block()) && strings.Contains(canonName(replay.Call.Args[len(replay.Call.Args)-1]), ".rollbackOps[")
	r.Check(okReplay, "TransactionDatatype.Rollback/replay all", u.Pos(replay.Pos()), "loop over rollbackOps", "Replay is not applied to every element of rollbackOps")
	bad := ""
	for _, c := range []*ssa.Call{set, replay, get} {
		ev := errResult(c)
		if ev == nil {
			bad = calleeName(c)
			continue
		}
		if ok, _ := errorEdgeReturns(fn, ev); !ok {
			bad = calleeName(c)
		}
	}
	r.Check(bad == "", "TransactionDatatype.Rollback/errors propagate", u.Pos(fn.Pos()), "every error returns", "the error of "+bad+" is not propagated")
	// the new rollback point is the state after the replay, and the replayed operations are
	// forgotten with it (they are part of the new point)
	okAfter := reachableFrom(replay, get) && !reachableFrom(get, replay)
	r.Check(okAfter, "TransactionDatatype.Rollback/refresh after replay", u.Pos(get.Pos()), "GetMetaAndSnapshot after the replay loop", "the new rollback point is captured before the committed operations have been replayed: the next rollback loses them")
	okStore := true
	for i, f := range []string{".rollbackMeta", ".rollbackSnapshot"} {
		found := false
		for _, st := range storesTo(fn, f) {
			if ex, ok := st.Val.(*ssa.Extract); ok && ex.Tuple == ssa.Value(get) && ex.Index == i {
				found = true
			}
		}
		okStore = okStore && found
	}
	r.Check(okStore, "TransactionDatatype.Rollback/refresh stored", u.Pos(get.Pos()), "(rollbackMeta, rollbackSnapshot) = GetMetaAndSnapshot()", "the captured meta and snapshot are not stored as the new rollback copies")
	okClear := false
	for _, st := range storesTo(fn, ".rollbackOps") {
		c, isC := st.Val.(*ssa.Const)
		if !isC || c.Value != nil {
			continue
		}
		// cleared after the capture, on every successful return
		good := instrDominates(get, st)
		forEachInstr(fn, func(in ssa.Instruction) {
			if ret, ok := in.(*ssa.Return); ok && len(ret.Results) == 1 {
				if k, isK := ret.Results[0].(*ssa.Const); isK && k.Value == nil && !instrDominates(st, ret) {
					good = false
				}
			}
		})
		okClear = okClear || good
	}
	r.Check(okClear, "TransactionDatatype.Rollback/replayed operations forgotten", u.Pos(fn.Pos()), "rollbackOps = nil after the capture", "rollbackOps is not cleared once the new rollback point contains them: the next rollback replays them a second time")
}

// N: the count announced by the unit's header, whichever decoder produced the *TransactionOperation.
const txCountRe = `[^\s+\-]*\.\(\*operations\.TransactionOperation\)(#0)?\.GetNumOfOps\(\)`

var txAbs = rewriter(txCountRe, "N", `len\(\$1\)`, "LEN", `φi`, "I")

// decodedCopies: loop-carried slices of fn that are built by appending exactly one element per iteration of a
// loop over parameter $1 (the received unit decoded ahead of its application); their length is the unit's length.
func decodedCopies(fn *ssa.Function) []ssa.Value {
	if len(fn.Params) < 2 {
		return nil
	}
	out := decodedCopiesOf(fn, fn.Params[1])
	// ... or by a new helper that is handed the unit and returns such a slice
	for _, c := range ownCallsIn(fn) {
		call, ok := c.(*ssa.Call)
		if !ok {
			continue
		}
		h := staticCallee(call)
		if h == nil || !flattenable[h] {
			continue
		}
		for k, a := range call.Call.Args {
			if a != ssa.Value(fn.Params[1]) || k >= len(h.Params) {
				continue
			}
			inner := decodedCopiesOf(h, h.Params[k])
			if len(inner) == 0 {
				continue
			}
			isCopy := map[ssa.Value]bool{}
			for _, v := range inner {
				isCopy[v] = true
			}
			// every non-nil slice the helper returns first is that copy
			good, any := true, false
			forEachOwnInstr(h, func(in ssa.Instruction) {
				ret, ok := in.(*ssa.Return)
				if !ok || len(ret.Results) == 0 {
					return
				}
				var vals []ssa.Value
				if ph, isPhi := ret.Results[0].(*ssa.Phi); isPhi && !isCopy[ph] {
					vals = append(vals, ph.Edges...)
				} else {
					vals = append(vals, ret.Results[0])
				}
				for _, v := range vals {
					if k, isC := v.(*ssa.Const); isC && k.Value == nil {
						continue
					}
					if isCopy[v] {
						any = true
					} else {
						good = false
					}
				}
			})
			if !good || !any {
				continue
			}
			out = append(out, inner...)
			if call.Call.Signature().Results().Len() == 1 {
				out = append(out, call)
			}
			for _, ref := range *call.Referrers() {
				if ex, ok := ref.(*ssa.Extract); ok && ex.Index == 0 {
					out = append(out, ex)
				}
			}
		}
	}
	return out
}

func decodedCopiesOf(fn *ssa.Function, unit *ssa.Parameter) []ssa.Value {
	var out []ssa.Value
	forEachOwnInstr(fn, func(in ssa.Instruction) {
		phi, ok := in.(*ssa.Phi)
		if !ok || !phiCyclic(phi) {
			return
		}
		if _, isSlice := phi.Type().Underlying().(*types.Slice); !isSlice {
			return
		}
		// the loop of the phi ranges over the unit
		overUnit := false
		for _, i2 := range phi.Block().Instrs {
			if bo, ok := i2.(*ssa.BinOp); ok {
				if c, ok := bo.Y.(*ssa.Call); ok {
					if b, ok := c.Call.Value.(*ssa.Builtin); ok && b.Name() == "len" && len(c.Call.Args) == 1 && c.Call.Args[0] == ssa.Value(unit) {
						overUnit = true
					}
				}
			}
		}
		for _, i2 := range phi.Block().Instrs {
			if _, ok := i2.(*ssa.If); ok && !overUnit {
				// `for range` over a slice computes len before the loop
				for _, pin := range fn.Blocks {
					for _, i3 := range pin.Instrs {
						if c, ok := i3.(*ssa.Call); ok {
							if b, ok := c.Call.Value.(*ssa.Builtin); ok && b.Name() == "len" && len(c.Call.Args) == 1 && c.Call.Args[0] == ssa.Value(unit) && pin.Dominates(phi.Block()) {
								overUnit = true
							}
						}
					}
				}
			}
		}
		if !overUnit {
			return
		}
		good := true
		for _, e := range phi.Edges {
			switch x := e.(type) {
			case *ssa.MakeSlice:
			case *ssa.Const:
			case *ssa.Call:
				b, ok := x.Call.Value.(*ssa.Builtin)
				if !ok || b.Name() != "append" || len(x.Call.Args) != 2 || x.Call.Args[0] != ssa.Value(phi) {
					good = false
					break
				}
				sl, ok := x.Call.Args[1].(*ssa.Slice)
				if !ok {
					good = false
					break
				}
				al, ok := sl.X.(*ssa.Alloc)
				if !ok {
					good = false
					break
				}
				arr, ok := al.Type().Underlying().(*types.Pointer).Elem().Underlying().(*types.Array)
				if !ok || arr.Len() != 1 {
					good = false
				}
			default:
				good = false
			}
		}
		if good {
			out = append(out, phi)
		}
	})
	return out
}

// aliasDecodedCopies makes the decoded copies of the unit carry the unit's own name ("$1") while a rule reads
// lengths and indexes; the returned function removes the aliases.
func aliasDecodedCopies(fn *ssa.Function) func() {
	vals := decodedCopies(fn)
	for _, v := range vals {
		nameAlias[v] = "$1"
	}
	return func() {
		for _, v := range vals {
			delete(nameAlias, v)
		}
	}
}

// R09.4 a length taken from the wire is checked before it bounds a slice
func ruleR09_4(w *World, r *Report) {
	u := w.Client()
	r.Rule("R09.4", "the announced length of a received transaction unit is compared with what remains of the received batch (and with 1) before it bounds a slice or advances the loop", 1)
	fn := u.Fn(pDatatypes, "WiredDatatype", "ReceiveRemoteModelOperations")
	if fn == nil {
		r.Lost("WiredDatatype.ReceiveRemoteModelOperations")
		return
	}
	n := 0
	forEachInstr(fn, func(in ssa.Instruction) {
		sl, ok := in.(*ssa.Slice)
		if !ok || sl.High == nil {
			return
		}
		// the sliced sequence: the received batch itself, or (inside a new helper) a parameter that receives the
		// batch or its not yet consumed rest
		own := sl.Parent()
		var lenRe string
		if own == fn {
			if canonName(sl.X) != "$1" {
				return
			}
			lenRe = `len\(\$1\)`
		} else {
			prm, isParam := sl.X.(*ssa.Parameter)
			if !isParam {
				return
			}
			fromBatch := false
			for _, a := range helperArgs(prm) {
				for a != nil {
					if a == ssa.Value(fn.Params[1]) {
						fromBatch = true
						break
					}
					if s2, ok := a.(*ssa.Slice); ok {
						a = s2.X
						continue
					}
					break
				}
			}
			if !fromBatch {
				return
			}
			restore := hideHelper(own)
			defer restore()
			lenRe = `len\(` + regexp.QuoteMeta(canonName(prm)) + `\)`
		}
		abs := rewriter(txCountRe, "N", lenRe, "LEN", `φi`, "I")
		hiOf := func(v ssa.Value) string {
			return abstractLin(canonLinear(v), abs).String()
		}
		hi := hiOf(sl.High)
		if os.Getenv("VERIF_DEBUG_R094") != "" {
			fmt.Fprintf(os.Stderr, "R09.4 slice in %s: X=%s hi=%s\n", fnName(own), canonName(sl.X), hi)
		}
		if !strings.Contains(hi, "N") {
			return
		}
		n++
		var paths [][]string
		var okp bool
		if own == fn {
			paths, okp = pathLinCmps(fn, sl, abs)
		} else {
			var lits [][]Lit
			lits, okp = reachingLitsOwn(own, nil, sl)
			for _, p := range lits {
				var ls []string
				for _, l := range p {
					if lc, ok := canonLinCmp(l); ok {
						lc.L = abstractLin(lc.L, abs)
						ls = append(ls, lc.String())
					}
				}
				paths = append(paths, ls)
			}
		}
		lo := ""
		if sl.Low != nil {
			lo = hiOf(sl.Low)
			if lo == "0" {
				lo = ""
			}
		}
		good := okp && hi == lo+"+N" && (lo == "" || lo == "+I")
		for _, p := range paths {
			upper, lower := false, false
			for _, l := range p {
				switch l {
				case lo + "-LEN+N <= 0", lo + "-LEN+N-1 < 0":
					upper = true
				case "-N+1 <= 0", "-N < 0":
					lower = true
				}
			}
			good = good && upper && lower
		}
		r.Check(good, "ReceiveRemoteModelOperations/unit bounds", u.Pos(sl.Pos()), "ops[i:i+n] only under 1 <= n <= len(ops)-i",
			fmt.Sprintf("a transaction unit is sliced as ops[%s:%s] under %v; expected ops[i:i+n] under n >= 1 and i+n <= len(ops)", lo, hi, paths))
	})
	if n == 0 {
		r.Lost("ReceiveRemoteModelOperations: slicing of a transaction unit")
	}
	// the loop advances by exactly what it consumed: by the announced length after a unit, by one otherwise
	forEachInstr(fn, func(in ssa.Instruction) {
		sl, ok := in.(*ssa.Slice)
		if !ok || canonName(sl.X) != "$1" || sl.High == nil || sl.Parent() != fn {
			return
		}
		idx, ok := sl.Low.(*ssa.Phi)
		if !ok || !phiCyclic(idx) {
			return
		}
		steps := map[string]bool{}
		seen := map[ssa.Value]bool{}
		var walk func(v ssa.Value, d int)
		walk = func(v ssa.Value, d int) {
			if seen[v] || d > 10 {
				return
			}
			seen[v] = true
			if ph, ok := v.(*ssa.Phi); ok && ph != idx {
				for _, e := range ph.Edges {
					walk(e, d+1)
				}
				return
			}
			if c, ok := v.(*ssa.Const); ok && c.Value != nil {
				return // the initial value
			}
			steps[abstractLin(canonLinear(v), txAbs).String()] = true
		}
		for _, e := range idx.Edges {
			walk(e, 0)
		}
		var got []string
		for k := range steps {
			got = append(got, k)
		}
		sort.Strings(got)
		r.Check(len(got) == 2 && steps["+I+N"] && steps["+I+1"], "ReceiveRemoteModelOperations/loop advance", u.Pos(idx.Pos()), "i += announced length after a unit, i++ otherwise",
			fmt.Sprintf("the loop over the received operations continues at %v; expected exactly i+n after a transaction unit and i+1 after a single operation: otherwise an operation is skipped (never applied) or applied twice", got))
	})
	// a unit that does not fit (announces more than was received, or less than one) is an error for the caller:
	// the client reports it, the server's rebuild must not store a snapshot for a version it has not fully applied
	forEachInstr(fn, func(in ssa.Instruction) {
		ret, ok := in.(*ssa.Return)
		if !ok || ret.Block().Comment == "recover" || returnsNonNilLast(ret) {
			return
		}
		paths, _ := pathLinCmps(fn, ret, txAbs)
		for _, p := range paths {
			for _, l := range p {
				switch l {
				case "-I+LEN-N < 0", "-I+LEN-N+1 <= 0", "+N-1 < 0", "+N <= 0":
					r.Bad("ReceiveRemoteModelOperations/misfit unit is an error", u.Pos(ret.Pos()), "under "+l+" (the announced length does not fit what was received) the function returns without an error: the caller takes the batch for fully applied (the server's rebuild stores a snapshot under a version whose operations are missing; the client advances past the unit)")
					return
				}
			}
		}
	})
	r.OK("ReceiveRemoteModelOperations/misfit unit is an error", u.Pos(fn.Pos()), "every exit under a misfit literal carries an error")
}

// R09.5 announced count checked before the unit is applied
func ruleR09_5(w *World, r *Report) {
	u := w.Client()
	r.Rule("R09.5", "ExecuteRemoteTransactionWithCtx compares the announced number of operations with the length of the received unit before it begins the transaction and applies anything", 1)
	fn := u.Fn(pDatatypes, "TransactionDatatype", "ExecuteRemoteTransactionWithCtx")
	if fn == nil {
		r.Lost("TransactionDatatype.ExecuteRemoteTransactionWithCtx")
		return
	}
	defer aliasDecodedCopies(fn)()
	abs := txAbs
	var begin ssa.CallInstruction
	for _, c := range callsNamed(fn, "BeginTransaction") {
		begin = c
	}
	if begin == nil {
		r.Lost("ExecuteRemoteTransactionWithCtx: BeginTransaction")
		return
	}
	d := deepOfDepth(fn, 1)
	dpaths, ok := d.paths(d.find(begin.(ssa.Instruction)), abs)
	r.Check(ok && (allLitPathsHaveLin(dpaths, "+LEN-N == 0") || allLitPathsHaveLin(dpaths, "-LEN+N == 0")), "ExecuteRemoteTransactionWithCtx/count check", u.Pos(begin.Pos()), "len(unit) == announced count before BeginTransaction",
		fmt.Sprintf("the transaction begins under %v; expected a preceding check len(transaction) == announced NumOfOps (an incomplete unit must be refused as a whole)", linsOf(dpaths)))
	// every multi-operation unit goes through that check: the apply loop is reached either with
	// len <= 1 or through BeginTransaction
	for _, c := range callsNamed(fn, "SentenceInTx") {
		ps, _ := pathsWithBlocks(fn, nil, c.Block())
		good := true
		for _, p := range ps {
			single := false
			for _, l := range p.Lits {
				if lc, ok := canonLinCmp(l); ok && abstractLin(lc.L, abs).String()+" "+lc.Op.String() == "-LEN+1 <" {
					_ = lc
				}
				if lc, ok := canonLinCmp(l); ok {
					s := linCmp{L: abstractLin(lc.L, abs), Op: lc.Op}.String()
					if s == "+LEN-1 <= 0" {
						single = true
					}
				}
			}
			if !single && !p.Blocks[begin.Block()] {
				good = false
			}
		}
		r.Check(good, "ExecuteRemoteTransactionWithCtx/apply only after the check", u.Pos(c.Pos()), "operations of a multi-operation unit are applied only after BeginTransaction", "operations of a unit longer than one are applied on a path that skipped the count check")
	}
}

// reachableBlock: is there a CFG path from block a to block b?
func reachableBlock(a, b *ssa.BasicBlock) bool {
	seen := map[*ssa.BasicBlock]bool{}
	work := []*ssa.BasicBlock{a}
	for len(work) > 0 {
		x := work[len(work)-1]
		work = work[:len(work)-1]
		if x == b {
			return true
		}
		if seen[x] {
			continue
		}
		seen[x] = true
		work = append(work, x.Succs...)
	}
	return false
}

// hideHelper makes a new helper look like an ordinary function for the naming functions (its parameters are then
// named $i instead of being replaced by the caller's arguments); the returned function restores it.
func hideHelper(h *ssa.Function) func() {
	was, had := flattenable[h]
	delete(flattenable, h)
	return func() {
		if had {
			flattenable[h] = was
		}
	}
}
