package main

import (
	"fmt"
	"go/token"
	"go/types"
	"strings"

	"golang.org/x/tools/go/ssa"
)

// Rules added after the second round of independent changes (DESIGN.md section 11).

// R04.7 transmitted targets are order times
func ruleR04_7(w *World, r *Report) {
	u := w.Client()
	r.Rule("R04.7", "the element identities a local list/array operation records for transmission (the targets other replicas look up) are the nodes' immutable order times, never their value or creation times", 4)
	specs := [][2]string{{"listSnapshot", "updateLocal"}, {"listSnapshot", "deleteLocal"}, {"listSnapshot", "insertLocalWithTimedTypes"}, {"jsonArray", "updateLocal"}, {"jsonArray", "deleteLocal"}}
	for _, sp := range specs {
		fn := u.Fn(pOrda, sp[0], sp[1])
		cons := sp[0] + "." + sp[1] + "/targets"
		if fn == nil {
			r.Lost(sp[0] + "." + sp[1])
			continue
		}
		bad := ""
		n := 0
		// every *model.Timestamp that is appended to a []*model.Timestamp or returned as one
		check := func(v ssa.Value, pos token.Pos) {
			for _, x := range resolvePhis(v) {
				if c, ok := x.(*ssa.Const); ok && c.Value == nil {
					continue
				}
				n++
				if ex, isEx := x.(*ssa.Extract); isEx {
					// the targets of a sibling function that is itself one of the checked ones (jsonArray.deleteLocal
					// hands on what listSnapshot.deleteLocal recorded)
					if c, isC := ex.Tuple.(*ssa.Call); isC {
						sibling := false
						for _, sp2 := range specs {
							if calleeName(c) == sp2[1] && staticCallee(c) != nil && staticCallee(c) != fn {
								sibling = true
							}
						}
						if sibling {
							continue
						}
					}
				}
				call, ok := x.(*ssa.Call)
				if !ok || calleeName(call) != "getOrderTime" {
					bad = exprName(x) + " at " + u.Pos(pos)
				}
			}
		}
		forEachInstr(fn, func(in ssa.Instruction) {
			switch x := in.(type) {
			case *ssa.Store:
				// element of a variadic/append backing array of []*model.Timestamp
				if ia, ok := x.Addr.(*ssa.IndexAddr); ok && isTimestampPtr(x.Val.Type()) {
					if _, isAlloc := ia.X.(*ssa.Alloc); isAlloc {
						check(x.Val, x.Pos())
					}
				}
			case *ssa.Return:
				for _, res := range x.Results {
					if isTimestampPtr(res.Type()) {
						check(res, x.Pos())
					}
					// a whole target list handed on from a sibling that is itself checked
					if sl, isSl := res.Type().Underlying().(*types.Slice); isSl && isTimestampPtr(sl.Elem()) {
						for _, v := range resolvePhis(res) {
							if ex, isEx := v.(*ssa.Extract); isEx {
								if c, isC := ex.Tuple.(*ssa.Call); isC && staticCallee(c) != nil && staticCallee(c) != fn {
									for _, sp2 := range specs {
										if calleeName(c) == sp2[1] {
											n++
										}
									}
								}
							}
						}
					}
				}
			}
		})
		r.Check(bad == "" && n > 0, cons, u.Pos(fn.Pos()), fmt.Sprintf("%d recorded target(s), all getOrderTime()", n), "a transmitted target is "+bad+", not the node's order time: remote replicas look elements up by order time, so the operation misses an element that was updated or replaced before")
	}
}

func isTimestampPtr(t types.Type) bool {
	p, ok := t.(*types.Pointer)
	if !ok {
		return false
	}
	n, ok := p.Elem().(*types.Named)
	return ok && n.Obj().Name() == "Timestamp"
}

func resolvePhis(v ssa.Value) []ssa.Value { return resolvePhisX(v, true) }

func resolvePhisOwn(v ssa.Value) []ssa.Value { return resolvePhisX(v, false) }

// resolvePhisX: the values a phi joins; with helpers=true a result of a new helper is replaced by
// the values its (success) returns yield.
func resolvePhisX(v ssa.Value, helpers bool) []ssa.Value {
	seen := map[ssa.Value]bool{}
	var out []ssa.Value
	var walk func(v ssa.Value, d int)
	walk = func(v ssa.Value, d int) {
		if seen[v] || d > 12 {
			return
		}
		seen[v] = true
		if p, ok := v.(*ssa.Phi); ok {
			for _, e := range p.Edges {
				walk(e, d+1)
			}
			return
		}
		if helpers {
			var call *ssa.Call
			idx := 0
			switch x := v.(type) {
			case *ssa.Extract:
				call, _ = x.Tuple.(*ssa.Call)
				idx = x.Index
			case *ssa.Call:
				if x.Call.Signature().Results().Len() == 1 {
					call = x
				}
			}
			if call != nil {
				if vals, ok := helperResults(call, idx); ok {
					for _, e := range vals {
						walk(e, d+1)
					}
					return
				}
			}
		}
		out = append(out, v)
	}
	walk(v, 0)
	return out
}

// R03.8 the operation id is taken on every path of executeLocalBase
func ruleR03_8(w *World, r *Report) {
	u := w.Client()
	r.Rule("R03.8", "executeLocalBase takes the next operation id before anything else, on every path (also for transaction, error and snapshot operations, which a replay must number exactly as the original run did)", 1)
	fn := u.Fn(pDatatypes, "BaseDatatype", "executeLocalBase")
	if fn == nil {
		r.Lost("BaseDatatype.executeLocalBase")
		return
	}
	next := firstCall(fn, "SetNextOpID", "Next")
	good := next != nil
	if good {
		forEachInstr(fn, func(in ssa.Instruction) {
			if ret, ok := in.(*ssa.Return); ok && !instrDominates(next, ret) {
				good = false
			}
		})
	}
	r.Check(good, "BaseDatatype.executeLocalBase/id on every path", u.Pos(fn.Pos()), "SetNextOpID dominates every return", "a path returns without having taken the next operation id: replaying a committed transaction after a rollback numbers the later operations differently from the original run")
}

// R11.5 errors of the rebuild propagate
func ruleR11_5(w *World, r *Report) {
	u := w.Server()
	r.Rule("R11.5", "in the snapshot manager every error (storage, restore, replay of the log) is compared with nil and returned: a datatype that could not be rebuilt completely is never stored as a snapshot", 6)
	for _, name := range []string{"GetLatestDatatype", "UpdateSnapshot"} {
		fn := u.Fn(pSnapshot, "Manager", name)
		if fn == nil {
			r.Lost("snapshot.Manager." + name)
			continue
		}
		for _, ci := range callsIn(fn) {
			call, ok := ci.(*ssa.Call)
			if !ok {
				continue
			}
			sig := call.Call.Signature()
			n := sig.Results().Len()
			if n == 0 || !isErrorLike(sig.Results().At(n-1).Type()) {
				continue
			}
			cons := "snapshot.Manager." + name + "/error of " + calleeName(call)
			ev := errResult(call)
			if ev == nil || len(realRefs(ev)) == 0 {
				r.Bad(cons, u.Pos(call.Pos()), "the error is discarded")
				continue
			}
			if isMethod(calleeObj(call), pErrors, "ErrorCode", "New") {
				continue // an error being constructed, returned as it is
			}
			// "return f()": the error is handed to the caller as it is
			direct := false
			for _, ref := range realRefs(ev) {
				if ret, isRet := ref.(*ssa.Return); isRet && len(ret.Results) > 0 && stripIface(ret.Results[len(ret.Results)-1]) == stripIface(ev) {
					direct = true
				}
				// the same through the result cell a deferred call forces: store cell <- f(); return *cell
				if st, isSt := ref.(*ssa.Store); isSt {
					if _, isAlloc := st.Addr.(*ssa.Alloc); isAlloc && stripIface(st.Val) == stripIface(ev) {
						b := st.Block()
						if ret, isRet := b.Instrs[len(b.Instrs)-1].(*ssa.Return); isRet && len(ret.Results) > 0 {
							if ld, isLd := ret.Results[len(ret.Results)-1].(*ssa.UnOp); isLd && ld.X == st.Addr {
								direct = true
							}
						}
					}
				}
			}
			if direct && len(realRefs(ev)) == 1 {
				r.OK(cons, u.Pos(call.Pos()), "returned to the caller as it is")
				continue
			}
			ok2, detail := errorEdgeReturns(call.Parent(), ev)
			r.Check(ok2, cons, u.Pos(call.Pos()), detail, detail)
		}
	}
}

// R12.5 TryLock tells the truth
func ruleR12_5(w *World, r *Report) {
	u := w.Server()
	r.Rule("R12.5", "a TryLock implementation returns false only on paths on which it did not acquire the mutex (a caller that is told 'not locked' never unlocks)", 2)
	for _, t := range []struct{ recv, acquire string }{{"LocalLock", "TryLockWithContext"}, {"RedisLock", "LockContext"}} {
		fn := u.Fn(pSUtils, t.recv, "TryLock")
		if fn == nil {
			r.Lost("utils." + t.recv + ".TryLock")
			continue
		}
		var acq *ssa.Call
		for _, c := range callsNamed(fn, t.acquire) {
			acq, _ = c.(*ssa.Call)
		}
		if acq == nil {
			r.Lost("utils." + t.recv + ".TryLock: " + t.acquire)
			continue
		}
		bad := ""
		forEachInstr(fn, func(in ssa.Instruction) {
			ret, ok := in.(*ssa.Return)
			if !ok || len(ret.Results) != 1 {
				return
			}
			isFalse := false
			for _, v := range resolveSpill(ret.Results[0]) {
				if k, isK := v.(*ssa.Const); isK && k.Value != nil && k.Value.ExactString() == "false" {
					isFalse = true
				}
			}
			if !isFalse {
				return
			}
			// ... or on which it gave the mutex back first (every way from the acquire to this return unlocks)
			released, _ := mustReach(acq, func(x ssa.Instruction) bool {
				if x == ssa.Instruction(ret) {
					return false
				}
				ci, isCall := x.(ssa.CallInstruction)
				return isCall && calleeName(ci) == "Unlock"
			}, false)
			unlockBefore := false
			for _, uc := range callsNamed(fn, "Unlock") {
				if reachableFrom(acq, uc.(ssa.Instruction)) && instrDominates(uc.(ssa.Instruction), ret) {
					unlockBefore = true
				}
			}
			_ = released
			if unlockBefore {
				return
			}
			paths, _ := reachingLits(fn, nil, ret)
			for _, p := range paths {
				failed := false
				for _, l := range p {
					// LocalLock: !TryLockWithContext(...) ; RedisLock: LockContext(...) != nil
					if l.Kind == "call" && l.Call == acq && !l.Pol {
						failed = true
					}
					if isNilCheckOf(l, acq, false) {
						failed = true
					}
				}
				if !failed {
					bad = u.Pos(ret.Pos())
				}
			}
		})
		r.Check(bad == "", "utils."+t.recv+".TryLock/false only when not acquired", u.Pos(fn.Pos()), "every 'false' follows a failed acquire", "TryLock returns false at "+bad+" on a path on which the mutex was acquired: nobody releases it")
	}
}

// R12.8 every handler has its own context
func ruleR12_8(w *World, r *Report) {
	u := w.Server()
	r.Rule("R12.8", "each push-pull handler works on a context of its own (created with NewOrdaContext), not on the request's shared context whose tags the request goroutine keeps rewriting", 1)
	fn := u.Fn(pService, "", "newPushPullHandler")
	if fn == nil {
		r.Lost("service.newPushPullHandler")
		return
	}
	sts := storesTo(fn, "complit.ctx")
	good := len(sts) == 1
	if good {
		o := origins(sts[0].Val)
		good = o["call:context.NewOrdaContext"]
	}
	r.Check(good, "newPushPullHandler/own context", u.Pos(fn.Pos()), "ctx derives from NewOrdaContext", "the handler's context is the request's context itself: the handlers of one request and the request goroutine write its tag map concurrently (data race; concurrent map write crashes the server)")
}

// R13.4 the client's manager registers a key once
func ruleR13_4(w *World, r *Report) {
	u := w.Client()
	r.Rule("R13.4", "the client's datatype manager stores a datatype under a key only when the key is not registered yet (a second use of a held key never replaces the registered datatype)", 1)
	fn := u.Fn(pCManagers, "DatatypeManager", "SubscribeOrCreate")
	if fn == nil {
		r.Lost("DatatypeManager.SubscribeOrCreate")
		return
	}
	n := 0
	forEachInstr(fn, func(in ssa.Instruction) {
		mu, ok := in.(*ssa.MapUpdate)
		if !ok || mapFieldOf(mu.Map) != "DatatypeManager.dataMap" {
			return
		}
		n++
		paths, _ := reachingLits(fn, nil, mu)
		good := len(paths) > 0
		for _, p := range paths {
			absent := false
			for _, l := range p {
				if l.Kind == "ok" && !l.Pol {
					absent = true
				}
			}
			good = good && absent
		}
		if !good {
			// or every caller has asked the registry first and goes on only when it holds nothing under the key
			sites := 0
			guarded := true
			for _, g := range u.ordaFuncs(func(p string) bool { return p == pOrda || p == pCManagers }) {
				for _, c := range ownCallsIn(g) {
					if staticCallee(c) != fn {
						continue
					}
					sites++
					var exist *ssa.Call
					for _, e := range callsNamed(g, "ExistDatatype") {
						if ec, isCall := e.(*ssa.Call); isCall && instrDominates(ec, c.(ssa.Instruction)) {
							exist = ec
						}
					}
					if exist == nil {
						// the lookup sits under the same guard as the store (both run only with a manager): every path
						// to the store that passes the lookup's block must have seen "nothing found"
						for _, e := range callsNamed(g, "ExistDatatype") {
							if ec, isCall := e.(*ssa.Call); isCall {
								exist = ec
							}
						}
					}
					if exist == nil {
						guarded = false
						continue
					}
					// every return between the lookup and the store: the lookup's result, when not nil, is returned
					found := false
					for _, b := range g.Blocks {
						if len(b.Instrs) == 0 {
							continue
						}
						ifi, isIf := b.Instrs[len(b.Instrs)-1].(*ssa.If)
						if !isIf {
							continue
						}
						l := normLit(condEdge{ifi.Cond, true})
						if l.Kind != "cmp" || (l.Op != token.NEQ && l.Op != token.EQL) {
							continue
						}
						ex, isEx := loadSource(l.X).(*ssa.Extract)
						if !isEx || ex.Tuple != ssa.Value(exist) || ex.Index != 0 {
							continue
						}
						succ := b.Succs[0]
						if l.Op == token.EQL {
							succ = b.Succs[1]
						}
						if okAll, _ := mustReachFromBlock(succ, func(in ssa.Instruction) bool {
							_, isRet := in.(*ssa.Return)
							return isRet
						}); okAll && !reachableFromBlock(succ, c.(ssa.Instruction).Block()) {
							found = true
						}
					}
					if !found {
						guarded = false
					}
				}
			}
			good = sites > 0 && guarded
		}
		r.Check(good, "DatatypeManager.SubscribeOrCreate/register once", u.Pos(mu.Pos()), "stored only when absent", "a datatype is stored under a key that may already be registered: the registered datatype is orphaned (never synced again) and the key is reused with another DUID or type")
		// the datatype is registered before anything can start its first exchange: in realtime mode SubscribeOrCreate on
		// the datatype delivers in a background goroutine, whose response is looked up in dataMap
		late := ""
		for _, c := range callsIn(fn) {
			if calleeName(c) == "SubscribeOrCreate" && reachableFrom(c.(ssa.Instruction), mu) {
				late = calleeName(c)
			}
		}
		r.Check(late == "", "DatatypeManager.SubscribeOrCreate/registered before the first exchange can start", u.Pos(mu.Pos()), "dataMap store precedes datatype.SubscribeOrCreate", "the datatype is registered only after "+late+" on the datatype, which (realtime) starts the first push-pull in the background: a response that arrives before the registration finds no datatype and is dropped; a subscriber stays DUE_TO_SUBSCRIBE for ever")
	})
	if n == 0 {
		r.Lost("DatatypeManager.SubscribeOrCreate: store into dataMap")
	}
}

// R17.7 filter clauses are not thrown away
func ruleR17_7(w *World, r *Report) {
	u := w.Server()
	r.Rule("R17.7", "the result of every AddFilter* call is used (the filter is a value: a call whose result is discarded adds nothing to the query)", 10)
	n := 0
	for _, fn := range u.ordaFuncs(func(p string) bool { return p == pMongo || p == pService || p == pSnapshot }) {
		for _, c := range callsIn(fn) {
			if !strings.HasPrefix(calleeName(c), "AddFilter") {
				continue
			}
			n++
			call, ok := c.(*ssa.Call)
			used := ok && len(realRefs(call)) > 0
			r.Check(used, fnName(fn)+"/"+calleeName(c)+" result used", u.Pos(c.Pos()), "used", "the filter returned by "+calleeName(c)+" is discarded: the clause is missing from the query (a lookup or purge is wider than intended)")
		}
	}
	if n < 10 {
		r.Lost(fmt.Sprintf("AddFilter* calls (found %d)", n))
	}
}

// R18.6 / R18.7
func ruleR18_6(w *World, r *Report) {
	u := w.Server()
	r.Rule("R18.6", "in the post-reply goroutine the notification is sent unconditionally and before the snapshot refresh (a failing or slow refresh never suppresses the announcement)", 1)
	fin := u.Fn(pService, "PushPullHandler", "finalize")
	if fin == nil {
		r.Lost("PushPullHandler.finalize")
		return
	}
	found := false
	for _, f := range closuresOf(fin) {
		d := deepOfDepth(f, 1)
		sends := d.calls("NotifyAfterPushPull")
		if len(sends) == 0 {
			continue
		}
		found = true
		send := sends[0]
		paths, ok := d.paths(send, nil)
		uncond := ok && len(paths) == 1 && len(paths[0].strs) == 0
		before := true
		for _, snap := range d.calls("reserveUpdateSnapshot") {
			before = before && d.dominates(send, snap)
		}
		r.Check(uncond && before, "finalize$goroutine/notify first", d.pos(u, send), "notification unconditional and first", "the notification depends on or follows the snapshot refresh: a committed push is not announced when the refresh fails or hangs")
	}
	if !found {
		r.Bad("finalize$goroutine/notify first", u.Pos(fin.Pos()), "the post-reply goroutine no longer sends the notification")
	}
}

func ruleR18_7(w *World, r *Report) {
	u := w.Client()
	r.Rule("R18.7", "the client connects to the notification broker under its unique client id (CUID), not under its alias (two clients with one alias would evict each other's session)", 1)
	fn := u.Fn(pCManagers, "", "NewNotifyManager")
	if fn == nil {
		r.Lost("managers.NewNotifyManager")
		return
	}
	found := false
	for _, c := range callsNamed(fn, "SetClientID") {
		found = true
		a := canonName(c.Common().Args[len(c.Common().Args)-1])
		r.Check(strings.HasSuffix(a, ".CUID"), "NewNotifyManager/client id", u.Pos(c.Pos()), a, "the MQTT client id is "+a+", expected the client's CUID")
	}
	if !found {
		r.Lost("NewNotifyManager: SetClientID")
	}
}

// ---------------------------------------------------------------------------------------------
// round 3

// R13.5 a subscriber's own early operations are dropped, and the response option starts clean
func ruleR13_5(w *World, r *Report) {
	u := w.Server()
	r.Rule("R13.5", "subscribeDatatype discards the operations the subscribing client sent along (they were issued against a state the subscription replaces) on every successful path, independently of the request's other bits; and the response option is reset to 'normal' right after the response pack is created, before the request is classified, so that only the create/subscribe paths announce create/subscribe", 2)
	if fn := u.Fn(pService, "PushPullHandler", "subscribeDatatype"); fn == nil {
		r.Lost("PushPullHandler.subscribeDatatype")
	} else {
		good := false
		pos := u.Pos(fn.Pos())
		for _, st := range storesTo(fn, "$0.gotPushPullPack.Operations") {
			if c, ok := st.Val.(*ssa.Const); ok && c.Value == nil && (alwaysRuns(st) || runsOnSuccess(st)) {
				good = true
				pos = u.Pos(st.Pos())
			}
		}
		r.Check(good, "subscribeDatatype/pushed operations dropped", pos, "gotPushPullPack.Operations = nil on every successful path", "a subscribing client's operations are not (or only conditionally) discarded: they are appended to the log although the client itself throws them away, and its later operations are taken for duplicates")
	}
	proc := u.Fn(pService, "PushPullHandler", "process")
	if proc == nil {
		r.Lost("PushPullHandler.process")
		return
	}
	normal := ""
	if p := u.Pkgs[pModel]; p != nil {
		if c, ok := p.Types.Scope().Lookup("PushPullBitNormal").(*types.Const); ok {
			normal = c.Val().ExactString()
		}
	}
	d := deepOf(proc)
	rps, cls := d.stores("$0.resPushPullPack"), d.stores("$0.casePushPull")
	good := false
	var at dins
	for _, x := range d.stores("$0.resPushPullPack.Option") {
		st := x.in.(*ssa.Store)
		k, isK := st.Val.(*ssa.Const)
		if !isK || k.Value == nil || normal == "" || k.Value.ExactString() != normal {
			continue
		}
		ok := len(rps) > 0 && len(cls) > 0
		for _, rp := range rps {
			if underDefer(rp) {
				continue
			}
			if rp.in != x.in && !d.dominates(rp, x) && !(rp.n == x.n && instrDominates(rp.in, x.in)) {
				ok = false
			}
		}
		for _, cl := range cls {
			if !d.dominates(x, cl) {
				ok = false
			}
		}
		if ok {
			good, at = true, x
		}
	}
	pos := u.Pos(proc.Pos())
	if good {
		pos = d.pos(u, at)
	}
	r.Check(good, "process/response option reset", pos, "resPushPullPack.Option = PushPullBitNormal before the classification", "the response option is not reset to normal after the response pack is derived from the request: a plain answer echoes the request's create/subscribe bits and the client takes it for a fresh subscription (it wipes its state and restarts its numbering)")
}

// underDefer: the deep instruction belongs to a deferred call of the root (the exit function).
func underDefer(x dins) bool {
	for a := x.n; a != nil; a = a.parent {
		if a.site != nil {
			if _, isDefer := a.site.(*ssa.Defer); isDefer {
				return true
			}
		}
	}
	return false
}

// R14.7 values handed to an operation body are a fresh copy
func ruleR14_7(w *World, r *Report) {
	u := w.Client()
	r.Rule("R14.7", "ConvertValueList returns a freshly built slice (nil or make, grown by append), never a re-slice of the caller's argument: the values stored in an operation body must not change when the caller reuses its slice before the operation is encoded", 1)
	fn := u.Fn(pTypes, "", "ConvertValueList")
	if fn == nil {
		r.Lost("types.ConvertValueList")
		return
	}
	n := 0
	forEachInstr(fn, func(in ssa.Instruction) {
		ret, ok := in.(*ssa.Return)
		if !ok || len(ret.Results) != 2 {
			return
		}
		if c, isC := ret.Results[0].(*ssa.Const); isC && c.Value == nil {
			return
		}
		n++
		bad := ""
		seen := map[ssa.Value]bool{}
		var walk func(v ssa.Value, d int)
		walk = func(v ssa.Value, d int) {
			if seen[v] || d > 20 {
				return
			}
			seen[v] = true
			switch x := v.(type) {
			case *ssa.Phi:
				for _, e := range x.Edges {
					walk(e, d+1)
				}
			case *ssa.Call:
				if b, isB := x.Call.Value.(*ssa.Builtin); isB && b.Name() == "append" {
					walk(x.Call.Args[0], d+1)
					return
				}
				bad = "the result of " + calleeName(x)
			case *ssa.Slice:
				walk(x.X, d+1)
			case *ssa.ChangeType:
				walk(x.X, d+1)
			case *ssa.Const:
				if x.Value != nil {
					bad = "a constant"
				}
			case *ssa.MakeSlice:
			case *ssa.UnOp:
				if al, isAl := x.X.(*ssa.Alloc); isAl {
					for _, rf := range realRefs(al) {
						if st, isSt := rf.(*ssa.Store); isSt && st.Addr == ssa.Value(al) {
							walk(st.Val, d+1)
						}
					}
					return
				}
				bad = exprName(v)
			case *ssa.Parameter:
				bad = "the caller's slice " + x.Name()
			default:
				bad = exprName(v)
			}
		}
		walk(ret.Results[0], 0)
		r.Check(bad == "", "types.ConvertValueList/fresh slice", u.Pos(ret.Pos()), "nil/make grown by append", "the returned slice is built on "+bad+": the operation body shares memory with the caller's argument")
	})
	if n == 0 {
		r.Lost("types.ConvertValueList: value return")
	}
}

// R17.8 collection numbers are unique
func ruleR17_8(w *World, r *Report) {
	u := w.Server()
	r.Rule("R17.8", "the collection-number generator increments its counter atomically (FindOneAndUpdate with $inc and upsert) and hands out the counter AFTER the increment (ReturnDocument = After): the document before the increment is missing for the first call and the same for the first two, so two collections would share a number, and everything scoped by the number (datatypes, operations, snapshots, clients, purges) would be shared too", 1)
	fn := u.Fn(pMongo, "MongoCollections", "GetNextCollectionNum")
	if fn == nil {
		r.Lost("MongoCollections.GetNextCollectionNum")
		return
	}
	var fau ssa.CallInstruction
	for _, c := range callsNamed(fn, "FindOneAndUpdate") {
		fau = c
	}
	if fau == nil {
		r.Lost("GetNextCollectionNum: FindOneAndUpdate")
		return
	}
	after := ""
	for path, p := range u.Prog.ImportedPackage("go.mongodb.org/mongo-driver/mongo/options").Members {
		if path == "After" {
			if k, ok := p.(*ssa.NamedConst); ok {
				after = k.Value.Value.ExactString()
			}
		}
	}
	okAfter, okUpsert := false, false
	for _, c := range callsNamed(fn, "SetReturnDocument") {
		a := c.Common().Args
		if k, isK := a[len(a)-1].(*ssa.Const); isK && k.Value != nil && after != "" && k.Value.ExactString() == after && instrDominates(c.(ssa.Instruction), fau.(ssa.Instruction)) {
			okAfter = true
		}
	}
	for _, c := range callsNamed(fn, "SetUpsert") {
		a := c.Common().Args
		if k, isK := a[len(a)-1].(*ssa.Const); isK && k.Value != nil && k.Value.ExactString() == "true" && instrDominates(c.(ssa.Instruction), fau.(ssa.Instruction)) {
			okUpsert = true
		}
	}
	r.Check(okAfter && okUpsert, "GetNextCollectionNum/number after the increment", u.Pos(fau.Pos()), "upsert, $inc, ReturnDocument(After)", fmt.Sprintf("the generator returns the counter document as it was BEFORE the increment (upsert=%v, ReturnDocument(After)=%v): the first call finds none and answers 1, the second finds {num:1} and answers 1 again", okUpsert, okAfter))
}

// R09.6 the rollback point of a subscriber names the subscribed datatype
func ruleR09_6(w *World, r *Report) {
	u := w.Client()
	r.Rule("R09.6", "when a subscription response is applied, the rollback point (ResetTransaction) is captured after the replica has taken the datatype's id and its fresh operation id, and before the received operations are applied: a later rollback restores the meta of that point, and a point taken earlier would give the replica back the identifiers it had before it subscribed", 1)
	fn := u.Fn(pDatatypes, "WiredDatatype", "ApplyPushPullPack")
	if fn == nil {
		r.Lost("WiredDatatype.ApplyPushPullPack")
		return
	}
	d := deepOfDepth(fn, 2)
	var idents, resets, recvs []dins
	d.each(func(x dins) {
		switch in := x.in.(type) {
		case *ssa.Store:
			if o, f, _, ok := storeField(in.Addr); ok && o == "BaseDatatype" && f == "id" {
				idents = append(idents, x)
			}
		case *ssa.Call:
			switch calleeName(in) {
			case "SetOpID":
				idents = append(idents, x)
			case "ResetTransaction":
				resets = append(resets, x)
			case "ReceiveRemoteModelOperations":
				recvs = append(recvs, x)
			}
		}
	})
	if len(idents) == 0 || len(resets) == 0 || len(recvs) == 0 {
		r.Lost(fmt.Sprintf("ApplyPushPullPack: identifier updates (%d), ResetTransaction (%d), ReceiveRemoteModelOperations (%d)", len(idents), len(resets), len(recvs)))
		return
	}
	good, dependsOnWire := false, false
	var at dins
	for _, rt := range resets {
		paths, okp := d.paths(rt, nil)
		ok := okp && len(paths) > 0
		for _, p := range paths {
			pos := false
			for _, l := range p.strs {
				if strings.HasPrefix(l, "HasSubscribeBit(") {
					pos = true
				}
			}
			ok = ok && pos
			// whether the wire could announce the new state (the notification topic) has no say in it
			for _, l := range p.strs {
				if strings.Contains(l, "OnChangeDatatypeState") {
					ok = false
					dependsOnWire = true
				}
			}
		}
		for _, s := range idents {
			if !d.reachable(s, rt) || d.reachable(rt, s) {
				ok = false
			}
		}
		for _, rc := range recvs {
			if !d.reachable(rt, rc) || d.reachable(rc, rt) {
				ok = false
			}
		}
		if ok {
			good, at = true, rt
		}
	}
	pos := d.pos(u, resets[0])
	if good {
		pos = d.pos(u, at)
	}
	if dependsOnWire {
		r.Bad("ApplyPushPullPack/rollback point after the subscribed identifiers", pos, "the rollback point of a subscription response is taken only when wire.OnChangeDatatypeState succeeded: a subscriber whose notification topic could not be subscribed keeps the rollback point with its pre-subscription DUID, and the first failed transaction afterwards cuts it off from the datatype")
		return
	}
	r.Check(good, "ApplyPushPullPack/rollback point after the subscribed identifiers", pos, "id and opID updated -> ResetTransaction -> received operations applied", "every rollback point of a subscription response is captured before the replica takes the datatype's id and its new operation id: the first failed transaction afterwards restores the pre-subscription DUID (and clock), and every later sync names a datatype the server does not know")
}
