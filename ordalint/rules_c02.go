package main

import (
	"fmt"
	"go/token"
	"go/types"
	"sort"
	"strings"

	"golang.org/x/tools/go/ssa"
)

// ---------------------------------------------------------------------------------------------
// R02.1 Compare is the lexicographic sign function over (Era, Lamport, CUID)

type fieldFact struct {
	neg, pos, nonpos, nonneg, zero, nonzero bool
}

func (f fieldFact) isZero() bool { return f.zero || (f.nonpos && f.nonneg) }
func (f fieldFact) isPos() bool  { return f.pos || (f.nonneg && f.nonzero) }
func (f fieldFact) isNeg() bool  { return f.neg || (f.nonpos && f.nonzero) }

// diffFact interprets a literal as a fact about "receiver.f - argument.f" for one field f.
func diffFact(l Lit, recv, arg string) (field string, ff fieldFact, ok bool) {
	if l.Kind != "cmp" {
		return "", ff, false
	}
	var lc linCmp
	if isIntegral(l.X.Type()) {
		lc, ok = linCmpOf(l)
		if !ok {
			return "", ff, false
		}
	} else {
		// strings: formal difference of the two operand names
		d := Linear{Terms: map[string]int64{}}
		d.Terms[exprName(l.X)]++
		d.Terms[exprName(l.Y)]--
		op := l.Op
		switch op {
		case token.GTR:
			d, op = d.scale(-1), token.LSS
		case token.GEQ:
			d, op = d.scale(-1), token.LEQ
		}
		lc = linCmp{L: d, Op: op}
	}
	if lc.L.K != 0 || len(lc.L.Terms) != 2 {
		return "", ff, false
	}
	var rf, af string
	var rc, ac int64
	for k, c := range lc.L.Terms {
		switch {
		case strings.HasPrefix(k, recv+"."):
			rf, rc = strings.TrimPrefix(k, recv+"."), c
		case strings.HasPrefix(k, arg+"."):
			af, ac = strings.TrimPrefix(k, arg+"."), c
		}
	}
	if rf == "" || rf != af || rc+ac != 0 || (rc != 1 && rc != -1) {
		return "", ff, false
	}
	// L = rc*(R.f - A.f)
	switch lc.Op {
	case token.LSS:
		if rc == 1 {
			ff.neg = true
		} else {
			ff.pos = true
		}
	case token.LEQ:
		if rc == 1 {
			ff.nonpos = true
		} else {
			ff.nonneg = true
		}
	case token.EQL:
		ff.zero = true
	case token.NEQ:
		ff.nonzero = true
	default:
		return "", ff, false
	}
	return rf, ff, true
}

func mergeFact(a, b fieldFact) fieldFact {
	return fieldFact{a.neg || b.neg, a.pos || b.pos, a.nonpos || b.nonpos, a.nonneg || b.nonneg, a.zero || b.zero, a.nonzero || b.nonzero}
}

func ruleR02_1(w *World, r *Report) {
	u := w.Client()
	r.Rule("R02.1", "Timestamp.Compare and OperationID.Compare return the sign of the first non-equal field in the order Era, Lamport, CUID (receiver minus argument) on every path", 2)
	order := []string{"Era", "Lamport", "CUID"}
	defer func() { substStack = nil }()
	for _, recvT := range []string{"Timestamp", "OperationID"} {
		substStack = nil
		fn := u.Fn(pModel, recvT, "Compare")
		cons := recvT + ".Compare"
		if fn == nil || len(fn.Params) != 2 {
			r.Lost("model." + cons)
			continue
		}
		recv, arg := fn.Params[0].Name(), fn.Params[1].Name()
		covered := map[string]bool{}
		bad := false
		nret := 0
		// a Compare that only forwards its fields to a helper is judged by the helper's body, read
		// with the helper's parameters replaced by the forwarded expressions
		if len(fn.Blocks) == 1 {
			if ret, ok := fn.Blocks[0].Instrs[len(fn.Blocks[0].Instrs)-1].(*ssa.Return); ok && len(ret.Results) == 1 {
				if call, ok := ret.Results[0].(*ssa.Call); ok && inlinable(call.Call.StaticCallee()) {
					h := call.Call.StaticCallee()
					env := map[*ssa.Parameter]ssa.Value{}
					for i, p := range h.Params {
						if i < len(call.Call.Args) {
							env[p] = call.Call.Args[i]
						}
					}
					substStack = []map[*ssa.Parameter]ssa.Value{env}
					fn = h
				}
			}
		}
		forEachInstr(fn, func(in ssa.Instruction) {
			ret, ok := in.(*ssa.Return)
			if !ok || len(ret.Results) != 1 {
				return
			}
			nret++
			paths, okp := reachingLits(fn, nil, ret)
			if !okp {
				r.Undecided(cons+"/return", u.Pos(ret.Pos()), "too many paths")
				bad = true
				return
			}
			for _, p := range paths {
				facts := map[string]fieldFact{}
				for _, l := range p {
					if nw := narrowing(l.X); nw != "" {
						r.Bad(cons+"/difference width", u.Pos(ret.Pos()), "the field difference is narrowed ("+nw+") before its sign is tested: timestamps that far apart compare with the wrong sign")
						bad = true
						return
					}
					f, ff, ok := diffFact(l, recv, arg)
					if !ok {
						r.Undecided(cons+"/branch", u.Pos(ret.Pos()), "unrecognised comparison shape on the path to this return: "+exprName(l.Raw))
						bad = true
						return
					}
					facts[f] = mergeFact(facts[f], ff)
				}
				// which field decides on this path?
				decided := -1
				for i, f := range order {
					ff, has := facts[f]
					if !has {
						break
					}
					if ff.isZero() {
						continue
					}
					decided = i
					break
				}
				nzero := 0
				for _, f := range order {
					if ff, has := facts[f]; has && ff.isZero() {
						nzero++
					} else {
						break
					}
				}
				for f := range facts {
					known := false
					for _, o := range order {
						known = known || o == f
					}
					if !known {
						r.Bad(cons+"/field-order", u.Pos(ret.Pos()), "comparison on an unexpected field "+f)
						bad = true
						return
					}
				}
				res := ret.Results[0]
				if k, isK := constInt(res); isK {
					if decided < 0 || nzero != decided || len(facts) != decided+1 {
						r.Bad(cons+"/field-order", u.Pos(ret.Pos()), fmt.Sprintf("constant %d returned on a path whose facts %v do not say 'all earlier fields equal, this field differs' in the order Era, Lamport, CUID", k, factString(facts)))
						bad = true
						return
					}
					ff := facts[order[decided]]
					switch {
					case ff.isPos() && k == 1, ff.isNeg() && k == -1:
						covered[order[decided]+sign(k)] = true
					default:
						r.Bad(cons+"/sign", u.Pos(ret.Pos()), fmt.Sprintf("returns %d where receiver.%s - argument.%s is %s", k, order[decided], order[decided], factString(map[string]fieldFact{order[decided]: ff})))
						bad = true
						return
					}
					continue
				}
				// three-way comparison of the remaining field, receiver first
				if c, isCall := res.(*ssa.Call); isCall {
					name := calleeName(c)
					_, args := recvAndArgs(c)
					if name == "Compare" && len(args) == 2 && decided < 0 && nzero == len(facts) && nzero < len(order) {
						f := order[nzero]
						if exprName(args[0]) == recv+"."+f && exprName(args[1]) == arg+"."+f {
							covered[f+"+"] = true
							covered[f+"-"] = true
							continue
						}
						r.Bad(cons+"/sign", u.Pos(ret.Pos()), fmt.Sprintf("three-way comparison of (%s, %s): expected (%s.%s, %s.%s)", exprName(args[0]), exprName(args[1]), recv, f, arg, f))
						bad = true
						return
					}
				}
				r.Undecided(cons+"/return", u.Pos(ret.Pos()), "unrecognised return shape: "+exprName(res))
				bad = true
				return
			}
		})
		if bad {
			continue
		}
		var missing []string
		for _, f := range order {
			for _, s := range []string{"+", "-"} {
				if !covered[f+s] {
					missing = append(missing, f+s)
				}
			}
		}
		if len(missing) > 0 {
			r.Bad(cons+"/fields", u.Pos(fn.Pos()), "no path decides "+strings.Join(missing, ",")+" (a field is not compared)")
			continue
		}
		r.OK(cons, u.Pos(fn.Pos()), fmt.Sprintf("%d returns; every path: earlier fields equal, deciding field signed correctly, order Era>Lamport>CUID", nret))
	}
}

func sign(k int64) string {
	if k > 0 {
		return "+"
	}
	return "-"
}

func factString(m map[string]fieldFact) string {
	var ks []string
	for k := range m {
		ks = append(ks, k)
	}
	sort.Strings(ks)
	var out []string
	for _, k := range ks {
		f := m[k]
		s := "?"
		switch {
		case f.isZero():
			s = "=0"
		case f.isPos():
			s = ">0"
		case f.isNeg():
			s = "<0"
		case f.nonpos:
			s = "<=0"
		case f.nonneg:
			s = ">=0"
		case f.nonzero:
			s = "!=0"
		}
		out = append(out, k+s)
	}
	return "{" + strings.Join(out, " ") + "}"
}

// ---------------------------------------------------------------------------------------------
// R02.2 / R02.3 guarded mutation sites

// callsNamed lists the calls in fn whose callee (static or interface method) has one of the names.
func callsNamed(fn *ssa.Function, names ...string) []ssa.CallInstruction {
	var out []ssa.CallInstruction
	for _, c := range callsIn(fn) {
		n := calleeName(c)
		for _, want := range names {
			if n == want {
				out = append(out, c)
			}
		}
	}
	return out
}

// sideKind classifies one side of a timestamp comparison.
func sideKind(v ssa.Value) string {
	o := origins(v)
	lookup := o.hasPrefix("maplookup") || o["invoke:getNext"] || o["invoke:getNextLive"]
	if lookup {
		return "existing"
	}
	if o.hasPrefix("param:") {
		return "incoming"
	}
	return "unknown"
}

// olderGuard: does the literal say "an existing element is strictly older than the incoming one"?
func olderGuard(l Lit) (is bool, wrong string) {
	o, ok := orientOf(l)
	if !ok {
		return false, ""
	}
	if sideKind(o.A) == "incoming" && sideKind(o.B) == "existing" {
		o = o.flip()
	}
	if sideKind(o.A) != "existing" || sideKind(o.B) != "incoming" {
		return false, ""
	}
	if clockOf(o.A) != "getTime" {
		// the value clock of an element is getTime(); its position identity (getOrderTime) and its
		// creation time never change and must not decide which value wins
		return false, fmt.Sprintf("the existing element is compared by %q, not by its value clock getTime()", clockOf(o.A))
	}
	if o.Rel == "older" {
		return true, ""
	}
	return false, fmt.Sprintf("existing(%s) is %s than incoming(%s)", exprName(o.A), o.Rel, exprName(o.B))
}

// clockOf names the accessor through which a compared timestamp was obtained.
func clockOf(v ssa.Value) string {
	if c, ok := v.(*ssa.Call); ok {
		return calleeName(c)
	}
	return ""
}

type guardSite struct {
	fnPkg, fnRecv, fnName string
	mutators              []string // callee names; "mapupdate:<T.F>" for a map store
	accept                []string // "older", "absent", "nil-time", "live"
	notTomb               bool     // R02.3: additionally requires !isTomb on every path
}

var r022Sites = []guardSite{
	{pOrda, "mapSnapshot", "putCommonWithTimedType", []string{"mapupdate:mapSnapshot.Map"}, []string{"older", "absent"}, false},
	{pOrda, "mapSnapshot", "removeRemoteWithTimedType", []string{"makeTomb"}, []string{"older"}, false},
	{pOrda, "mapSnapshot", "removeLocalWithTimedType", []string{"makeTomb"}, []string{"older"}, false},
	{pOrda, "listSnapshot", "updateRemote", []string{"setValue", "setTime"}, []string{"older", "nil-time"}, true},
	{pOrda, "listSnapshot", "deleteRemote", []string{"makeTomb"}, []string{"older", "live"}, false},
	{pOrda, "jsonArray", "updateRemote", []string{"setTimedType"}, []string{"older"}, true},
}

func litIsTombOnExisting(l Lit) (bool, bool) { // (is isTomb literal on an existing element, polarity)
	if l.Kind != "call" || calleeName(l.Call) != "isTomb" {
		return false, false
	}
	recv, _ := recvAndArgs(l.Call)
	if recv == nil || sideKind(recv) != "existing" {
		return false, false
	}
	return true, l.Pol
}

func siteInstrs(fn *ssa.Function, mutators []string) []ssa.Instruction {
	var out []ssa.Instruction
	for _, m := range mutators {
		if strings.HasPrefix(m, "mapupdate:") {
			want := strings.TrimPrefix(m, "mapupdate:")
			forEachInstr(fn, func(in ssa.Instruction) {
				if mu, ok := in.(*ssa.MapUpdate); ok && mapFieldOf(mu.Map) == want {
					out = append(out, in)
				}
			})
			continue
		}
		for _, c := range callsNamed(fn, m) {
			out = append(out, c.(ssa.Instruction))
		}
	}
	return out
}

func ruleR02_2(w *World, r *Report) {
	u := w.Client()
	r.Rule("R02.2", "every overwrite of an existing element on an apply path is controlled, on every path, by 'existing strictly older than incoming' (or an enumerated benign literal: key absent, no time yet, live node being deleted)", 6)
	for _, s := range r022Sites {
		fn := u.Fn(s.fnPkg, s.fnRecv, s.fnName)
		cons := s.fnRecv + "." + s.fnName
		if fn == nil {
			r.Lost(cons)
			continue
		}
		sites := siteInstrs(fn, s.mutators)
		if len(sites) == 0 {
			r.Lost(cons + "/" + strings.Join(s.mutators, ","))
			continue
		}
		for _, in := range sites {
			name := cons + "/" + mutName(in)
			paths, ok := reachingLits(fn, nil, in)
			if !ok {
				r.Undecided(name, u.Pos(in.Pos()), "too many paths")
				continue
			}
			okAll := true
			detail := ""
			for _, p := range paths {
				good := false
				wrong := ""
				for _, l := range p {
					if is, wr := olderGuard(l); is && has(s.accept, "older") {
						good = true
					} else if wr != "" {
						wrong = wr
					}
					if l.Kind == "ok" && !l.Pol && has(s.accept, "absent") {
						if _, isLookup := l.X.(*ssa.Lookup); isLookup {
							good = true
						}
					}
					if l.Kind == "cmp" && l.Op == token.EQL && has(s.accept, "nil-time") {
						if c, isNil := l.Y.(*ssa.Const); isNil && c.Value == nil {
							if call, isCall := l.X.(*ssa.Call); isCall && calleeName(call) == "getTime" {
								good = true
							}
						}
					}
					if is, pol := litIsTombOnExisting(l); is && !pol && has(s.accept, "live") {
						good = true
					}
				}
				if wrong != "" {
					good = false
					detail = "reversed or non-strict comparison on a path: " + wrong
				}
				if !good {
					okAll = false
					if detail == "" {
						detail = "a path reaches the overwrite without the required comparison; literals on it: " + litsString(p)
					}
					break
				}
			}
			r.Check(okAll, name, u.Pos(in.Pos()), fmt.Sprintf("%d paths, each guarded by one of %v", len(paths), s.accept), detail)
			// the winner is stamped with the incoming timestamp / is the incoming element
			switch x := in.(type) {
			case *ssa.MapUpdate:
				r.Check(sideKind(x.Value) == "incoming", name+"/stores the incoming element", u.Pos(in.Pos()), exprName(x.Value), "the element stored after winning the comparison is "+exprName(x.Value)+", not the incoming one")
			case ssa.CallInstruction:
				_, args := recvAndArgs(x)
				switch calleeName(x) {
				case "makeTomb", "setTime":
					r.Check(len(args) == 1 && sideKind(args[0]) == "incoming", name+"/stamped with the incoming timestamp", u.Pos(in.Pos()), "incoming timestamp", "the element is stamped with a timestamp that is not the incoming operation's: later comparisons use a wrong clock")
				case "setValue":
					paired := false
					for _, c := range callsNamed(fn, "setTime") {
						if c.Block() == x.Block() {
							paired = true
						}
					}
					r.Check(paired, name+"/value and time change together", u.Pos(in.Pos()), "setValue with setTime", "the value is replaced without its timestamp: the next older update would win over it")
				}
			}
		}
	}
}

func has(l []string, s string) bool {
	for _, x := range l {
		if x == s {
			return true
		}
	}
	return false
}

func mutName(in ssa.Instruction) string {
	switch x := in.(type) {
	case *ssa.MapUpdate:
		return "store " + mapFieldOf(x.Map) + "[..]"
	case ssa.CallInstruction:
		return "call " + calleeName(x)
	}
	return in.String()
}

func litsString(p []Lit) string {
	var out []string
	for _, l := range p {
		s := exprName(l.Raw)
		if l.Kind == "cmp" {
			s = exprName(l.X) + " " + l.Op.String() + " " + exprName(l.Y)
		} else if !l.Pol {
			s = "!" + s
		}
		out = append(out, s)
	}
	return "[" + strings.Join(out, " && ") + "]"
}

func ruleR02_3(w *World, r *Report) {
	u := w.Client()
	r.Rule("R02.3", "an update never resurrects: in both remote update functions every mutation of a node is on the not-a-tombstone edge of isTomb() of that node", 2)
	for _, s := range r022Sites {
		if !s.notTomb {
			continue
		}
		fn := u.Fn(s.fnPkg, s.fnRecv, s.fnName)
		cons := s.fnRecv + "." + s.fnName
		if fn == nil {
			r.Lost(cons)
			continue
		}
		sites := siteInstrs(fn, s.mutators)
		if len(sites) == 0 {
			r.Lost(cons + "/" + strings.Join(s.mutators, ","))
			continue
		}
		for _, in := range sites {
			paths, ok := reachingLits(fn, nil, in)
			okAll := ok
			for _, p := range paths {
				good := false
				for _, l := range p {
					if is, pol := litIsTombOnExisting(l); is && !pol {
						good = true
					}
				}
				okAll = okAll && good
			}
			r.Check(okAll, cons+"/"+mutName(in)+"/not-tomb", u.Pos(in.Pos()), "all paths pass !isTomb()", "a path mutates a node without having tested that it is not a tombstone")
		}
	}
}

// R02.4 sibling order: newest first
func ruleR02_4(w *World, r *Report) {
	u := w.Client()
	r.Rule("R02.4", "remote insert skips existing right siblings only while they are strictly newer than the incoming element, and inserts where the next sibling is older or absent", 2)
	fn := u.Fn(pOrda, "listSnapshot", "insertRemoteWithTimedTypes")
	if fn == nil {
		r.Lost("listSnapshot.insertRemoteWithTimedTypes")
		return
	}
	cons := "listSnapshot.insertRemoteWithTimedTypes"
	// advance sites: getNext calls all of whose paths carry a timestamp comparison
	nAdv := 0
	for _, c := range callsNamed(fn, "getNext") {
		in := c.(ssa.Instruction)
		paths, ok := reachingLits(fn, nil, in)
		if !ok || len(paths) == 0 {
			continue
		}
		all := true
		var rels []string
		for _, p := range paths {
			found := false
			for _, l := range p {
				if o, ok := orientOf(l); ok {
					found = true
					if sideKind(o.A) == "incoming" {
						o = o.flip()
					}
					if clockOf(o.A) != "getOrderTime" {
						rels = append(rels, "compared-by-"+clockOf(o.A)+"-not-getOrderTime")
					} else {
						rels = append(rels, o.Rel)
					}
				}
			}
			all = all && found
		}
		if !all {
			continue
		}
		nAdv++
		good := true
		for _, rel := range rels {
			good = good && rel == "newer"
		}
		r.Check(good, cons+"/skip-advance", u.Pos(in.Pos()), "advance only past strictly newer siblings", fmt.Sprintf("the skip loop advances when the existing sibling is %v than the incoming element (must be strictly newer)", rels))
	}
	if nAdv == 0 {
		r.Lost(cons + "/skip-loop (an advance controlled by a timestamp comparison)")
	}
	ins := callsNamed(fn, "insertNext")
	if len(ins) == 0 {
		r.Lost(cons + "/insertNext")
	}
	for _, c := range ins {
		in := c.(ssa.Instruction)
		paths, ok := reachingLits(fn, nil, in)
		good := ok
		detail := ""
		for _, p := range paths {
			// the last sibling test on the path decides the insertion point
			state := ""
			for _, l := range p {
				if o, ok := orientOf(l); ok {
					if sideKind(o.A) == "incoming" {
						o = o.flip()
					}
					state = o.Rel
				}
				if l.Kind == "cmp" && (l.Op == token.EQL) {
					if c, isNil := l.Y.(*ssa.Const); isNil && c.Value == nil && sideKind(l.X) == "existing" {
						state = "nil"
					}
				}
			}
			if state != "older-eq" && state != "nil" && state != "older" {
				good = false
				detail = "insertion is reached on a path where the next sibling is '" + state + "' relative to the incoming element: " + litsString(p)
			}
		}
		r.Check(good, cons+"/insert-point", u.Pos(in.Pos()), "insertion only where the next sibling is absent or not newer", detail)
	}
}

// R02.5 counter is addition
func ruleR02_5(w *World, r *Report) {
	u := w.Client()
	r.Rule("R02.5", "the only stores to counterSnapshot.Value outside (un)marshalling are Value = Value + <operation delta>", 1)
	n := 0
	for _, fn := range u.ordaFuncs(func(p string) bool { return p == pOrda }) {
		forEachInstr(fn, func(in ssa.Instruction) {
			st, ok := in.(*ssa.Store)
			if !ok {
				return
			}
			owner, field, base, ok := storeField(st.Addr)
			if !ok || owner != "counterSnapshot" || field != "Value" {
				return
			}
			cons := fnName(fn) + "/store counterSnapshot.Value"
			if fn.Name() == "UnmarshalJSON" || strings.HasPrefix(fn.Name(), "newCounterSnapshot") {
				r.OK(cons, u.Pos(st.Pos()), "restore/constructor writer")
				return
			}
			n++
			bo, isBin := st.Val.(*ssa.BinOp)
			good := false
			if isBin && bo.Op == token.ADD {
				self := base
				isLoad := func(v ssa.Value) bool {
					un, ok := v.(*ssa.UnOp)
					if !ok || un.Op != token.MUL {
						return false
					}
					fa, ok := un.X.(*ssa.FieldAddr)
					return ok && fa.X == self && fieldName(fa.X.Type(), fa.Field) == "counterSnapshot.Value"
				}
				other := ssa.Value(nil)
				if isLoad(bo.X) {
					other = bo.Y
				} else if isLoad(bo.Y) {
					other = bo.X
				}
				if other != nil && origins(other).hasPrefix("param:") && !origins(other).hasPrefix("const:") {
					good = true
				}
			}
			r.Check(good, cons, u.Pos(st.Pos()), "Value = Value + parameter", "store to the counter value that is not 'old value + the operation's delta': "+exprName(st.Val))
		})
	}
	if n == 0 {
		r.Lost("a store Value = Value + delta on counterSnapshot")
	}
}

// narrowing: v is (a conversion chain over) an integer difference converted to a narrower type.
func narrowing(v ssa.Value) string {
	for i := 0; i < 4; i++ {
		c, ok := v.(*ssa.Convert)
		if !ok {
			return ""
		}
		from, ok1 := c.X.Type().Underlying().(*types.Basic)
		to, ok2 := c.Type().Underlying().(*types.Basic)
		if ok1 && ok2 && from.Info()&types.IsInteger != 0 && to.Info()&types.IsInteger != 0 {
			if sizeOf(to) < sizeOf(from) {
				return from.Name() + " -> " + to.Name()
			}
		}
		v = c.X
	}
	return ""
}

func sizeOf(b *types.Basic) int {
	switch b.Kind() {
	case types.Int8, types.Uint8:
		return 1
	case types.Int16, types.Uint16:
		return 2
	case types.Int32, types.Uint32:
		return 4
	}
	return 8
}
