#!/bin/bash
# usage: try.sh <corpus/id> <prop>...   apply patch on /tmp/sw7, run checks with current bin, revert
cd /verif
p=$1; shift
src=/verif/$p/patch.diff; [ -f /tmp/rebased/$p/patch.diff ] && src=/tmp/rebased/$p/patch.diff
git -C /tmp/sw7 checkout -q -- . ; git -C /tmp/sw7 clean -fdq
git -C /tmp/sw7 apply $src || { echo APPLY-FAILED; exit 1; }
for c in "$@"; do bin/ordalint -repo /tmp/sw7 -property $c -tier quick -evidence /tmp/ev_try.json -known known_findings.json 2>&1 | grep -v KNOWN-FINDING | cut -c1-${W:-260} | tail -${N:-4}; done
git -C /tmp/sw7 checkout -q -- . ; git -C /tmp/sw7 clean -fdq
