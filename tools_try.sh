#!/bin/sh
# development helper: apply a patch to /repo, run the given properties, revert. usage: tools_try.sh <patch> C01 C02 ...
p="$1"; shift
git -C /repo apply "$p" || exit 3
for c in "$@"; do /verif/check "$c" quick 2>&1 | grep -E 'violated|VIOLATION|KNOWN|ordalint C|machinery|panic' ; done
git -C /repo checkout -- .
git -C /repo status --short | head
