#!/bin/bash
# development helper: run all 20 quick checks in parallel on $VERIF_REPO (default /repo), print one line per property and any non-known violation.
cd /verif
REPO=${VERIF_REPO:-/repo}; T=$(mktemp -d /tmp/ra.XXXX)
for i in 01 02 03 04 05 06 07 08 09 10 11 12 13 14 15 16 17 18 19 20; do
  ( if [ "$REPO" = /repo ]; then ./check C$i quick > $T/C$i.out 2>&1; else bin/ordalint -repo $REPO -property C$i -tier quick -evidence $T/ev_C$i.json -known known_findings.json > $T/C$i.out 2>&1; fi; echo $? > $T/C$i.code ) &
done 2>/dev/null; wait 2>/dev/null
for i in 01 02 03 04 05 06 07 08 09 10 11 12 13 14 15 16 17 18 19 20; do
  echo "C$i exit=$(cat $T/C$i.code) $(grep '^ordalint C' $T/C$i.out | cut -c1-170)"
  grep -E 'violated:|undecided:|lost' $T/C$i.out | grep -v KNOWN-FINDING | cut -c1-600 | head -6
done
rm -rf $T
